#!/usr/bin/env python3
"""Re-runs every seeded change against the checks of its property on a scratch copy of /repo HEAD
(never /repo itself) and writes seeded/MATRIX.md. Usage: tools/seed_matrix.py [jobs] [tier]"""
import json, os, shutil, subprocess, sys, tempfile, concurrent.futures as cf
VERIF = "/verif"
jobs = int(sys.argv[1]) if len(sys.argv) > 1 else 3
tier = sys.argv[2] if len(sys.argv) > 2 else "quick"
EXTRA = {"C02-2": ["C09"], "C09-3": ["C07"], "C05-1": ["C10"], "C06-2": ["C13"], "C06-1": ["C16"], "C01-2": ["C06"], "C03-1": ["C16", "C01"], "C03-2": ["C16"], "C04-3": ["C12"], "C11-1": ["C01"], "C11-3": ["C01"], "C07-3": ["C10"], "C04-2": ["C02"], "C02-3": ["C11"],
         "C01-7": ["C02", "C06"], "C01-8": ["C11"], "C02-8": ["C01"], "C06-7": ["C10"], "C08-7": ["C09"], "C10-6": ["C07"], "C10-8": ["C09"], "C11-7": ["C01"],
         "C03-5": ["C20"], "C12-5": ["C10"], "C20-5": ["C03"], "C09-5": ["C10"], "C10-4": ["C07"], "C02-5": ["C11"], "C07-5": ["C09"]}

def run(seed):
    d = os.path.join(VERIF, "seeded", seed)
    meta = json.load(open(os.path.join(d, "meta.json")))
    prop = meta["property"]
    props = [prop] + EXTRA.get(seed[:5], [])
    wt = tempfile.mkdtemp(prefix="seedmx.", dir="/tmp")
    os.rmdir(wt)
    res = {"seed": seed, "property": prop}
    try:
        subprocess.run(["git", "-C", "/repo", "worktree", "add", "-q", "--detach", wt, "HEAD"], check=True, capture_output=True)
        r = subprocess.run(["git", "-C", wt, "apply", os.path.join(d, "patch.diff")], capture_output=True, text=True)
        if r.returncode != 0:
            # a change ported by hand to the current tree (patch.rebased-<commit>.diff) is used instead
            import glob
            for alt in sorted(glob.glob(os.path.join(d, "patch.rebased-*.diff"))):
                r = subprocess.run(["git", "-C", wt, "apply", alt], capture_output=True, text=True)
                if r.returncode == 0:
                    res["note"] = "rebased patch " + os.path.basename(alt)
                    break
        if r.returncode != 0:
            res["status"] = "patch does not apply to the current tree"
            return res
        env = dict(os.environ, VERIF_REPO=wt, VERIF_EVIDENCE_DIR=os.path.join(wt, ".ev"), VERIF_TIER=tier)
        for p in props:
            r = subprocess.run([os.path.join(VERIF, "check"), p, "--tier", tier], env=env, capture_output=True, text=True, cwd=VERIF)
            res[p] = r.returncode
    finally:
        subprocess.run(["git", "-C", "/repo", "worktree", "remove", "--force", wt], capture_output=True)
        shutil.rmtree(wt, ignore_errors=True)
        import hashlib
        shutil.rmtree(os.path.join(VERIF, ".build-" + hashlib.sha1(wt.encode()).hexdigest()[:8]), ignore_errors=True)
    return res

seeds = sorted(s for s in os.listdir(os.path.join(VERIF, "seeded")) if os.path.exists(os.path.join(VERIF, "seeded", s, "meta.json")))
# results are appended to a journal as they come in, so that an interrupted run can be resumed
JOURNAL = os.path.join(VERIF, ".build", f"matrix.{tier}.jsonl")
os.makedirs(os.path.dirname(JOURNAL), exist_ok=True)
have = {}
if os.path.exists(JOURNAL) and os.environ.get("MATRIX_RESUME"):
    for l in open(JOURNAL):
        r = json.loads(l); have[r["seed"]] = r
import threading
jl = threading.Lock()
def run_j(seed):
    if seed in have:
        return have[seed]
    r = run(seed)
    with jl, open(JOURNAL, "a") as f:
        f.write(json.dumps(r) + "\n")
    return r
if not os.environ.get("MATRIX_RESUME") and os.path.exists(JOURNAL):
    os.remove(JOURNAL)
with cf.ThreadPoolExecutor(jobs) as ex:
    results = list(ex.map(run_j, seeds))
head = subprocess.run(["git", "-C", "/repo", "rev-parse", "--short", "HEAD"], capture_output=True, text=True).stdout.strip()
lines = [f"# Seeded changes vs checks ({tier} tier) on /repo at {head}", "", "exit 1 = violation reported (caught), 0 = held (missed), 2 = no verdict", "", "| seeded change | own property | other checks | note |", "|---|---|---|---|"]
caught = 0
for r in results:
    p = r["property"]
    if "status" in r:
        lines.append(f"| {r['seed']} | - | - | {r['status']} |")
        continue
    own = r.get(p)
    others = ", ".join(f"{k}={v}" for k, v in r.items() if k not in ("seed", "property", p))
    note = json.load(open(os.path.join(VERIF, "seeded", r["seed"], "meta.json")))["checks_run"].get("status on the repaired tree", "")
    any_caught = any(v == 1 for k, v in r.items() if k not in ("seed", "property"))
    caught += any_caught
    lines.append(f"| {r['seed']} | {p}={own} | {others} | {note[:90]} |")
lines += ["", f"caught by at least one check: {caught} of {len(results)}"]
open(os.path.join(VERIF, "seeded", "MATRIX.md"), "w").write("\n".join(lines) + "\n")
print("\n".join(lines[-3:]))

#!/bin/bash
# confirm_seed.sh <dir with patch.diff + demo_test.go>
# Confirms in a scratch worktree: patch applies, existing suite passes with it,
# demo fails with it and passes without it. Prints a one-line verdict.
set -u
D=$(realpath "$1")
export GOFLAGS=-mod=mod GOPROXY=off GOSUMDB=off
WT=$(mktemp -d /tmp/seedwt.XXXXXX)
git -C /repo worktree add -q --detach "$WT" HEAD || { echo "worktree failed"; exit 2; }
trap 'git -C /repo worktree remove --force "$WT" >/dev/null 2>&1; rm -rf "$WT"' EXIT
cd "$WT"
PLACE=$(head -3 "$D/demo_test.go" | grep -o 'place in: *[A-Za-z0-9_/.-]*' | sed 's/place in: *//' | head -1)
[ -z "$PLACE" ] && PLACE="websocket/"
if ! git apply --check "$D/patch.diff" 2>/dev/null; then echo "RESULT $D patch-does-not-apply"; exit 1; fi
cp "$D/demo_test.go" "$PLACE/zz_demo_test.go"
go test -vet=off -count=1 "./$PLACE" -run "$(grep -o 'func Test[A-Za-z0-9_]*' "$D/demo_test.go" | sed 's/func //' | paste -sd'|')" >/tmp/seed_pristine.log 2>&1; PR=$?
git apply "$D/patch.diff"
go test -vet=off -count=1 "./$PLACE" -run "$(grep -o 'func Test[A-Za-z0-9_]*' "$D/demo_test.go" | sed 's/func //' | paste -sd'|')" >/tmp/seed_patched.log 2>&1; PA=$?
rm -f "$PLACE/zz_demo_test.go"
go build ./... >/tmp/seed_build.log 2>&1; BU=$?
go test -vet=off -count=1 ./... >/tmp/seed_suite.log 2>&1; SU=$?
echo "RESULT $D demo_pristine_exit=$PR demo_patched_exit=$PA build=$BU suite_with_patch_exit=$SU"

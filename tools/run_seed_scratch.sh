#!/bin/bash
# run_seed_scratch.sh <dir with patch.diff> <prop> [<prop>...]
# Like run_seed.sh, but on a scratch worktree of /repo HEAD (VERIF_REPO), so /repo and the
# committed evidence are never touched and several changes can be evaluated at once.
set -u
D=$(realpath "$1"); shift
WT=$(mktemp -u /tmp/seedwt.XXXXXX)
git -C /repo worktree add -q --detach "$WT" HEAD || exit 2
H=$(python3 -c "import hashlib,sys;print(hashlib.sha1(sys.argv[1].encode()).hexdigest()[:8])" "$WT")
trap 'git -C /repo worktree remove --force "$WT" 2>/dev/null; rm -rf "$WT" "/verif/.build-$H"' EXIT
if ! git -C "$WT" apply "$D/patch.diff" 2>/dev/null; then echo "SEED $D: patch does not apply"; exit 2; fi
RES=""
TAG=$(basename $(dirname $D)).$(basename $D)
for P in "$@"; do
  VERIF_REPO="$WT" VERIF_EVIDENCE_DIR="$WT/.ev" /verif/check "$P" --tier "${TIER:-quick}" > "/tmp/seedrun.$TAG.$P.log" 2>&1; RC=$?
  RES="$RES $P=$RC"
done
echo "SEED $D:$RES"

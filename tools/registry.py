"""Which test functions decide which property, and with what budget.

Every part is one Go test function in harness/props, run as <shards> processes
with distinct seeds; `checks` is the rapid case count per shard.
"""

def H(test, name, q, t, qs=2, ts=16, **kw):
    d = {"name": name, "test": test,
         "quick": {"shards": qs, "checks": q, "timeout": 240},
         "thorough": {"shards": ts, "checks": t, "timeout": 3000}}
    d.update(kw)
    return d


MODEL_ASSUME = [
    "driver H calls the real handler.handleMessage through an overlay export; hwebsocket.Receive is emulated (undecodable frame / missing timestamp ends the connection) and the real hagall-common scheduler dispatches",
    "reference model (harness/props/model.go, exec.go) is a reading of the property statements; error codes pinned as in the repository's unit tests, set-valued where several refusal reasons hold",
    "runs inside a testing/synctest bubble (Go 1.26.8): the sessions' real frame workers tick on a fake clock",
]

def model(test, q, t, wire=None, **kw):
    parts = [H(test, "H", q, t, hang_is_violation=True, **kw)]
    if wire:
        parts.append(H(wire, "W", 250, 2500, qs=1, ts=16, hang_is_violation=True))
    return {"level": "exploration", "assumptions": MODEL_ASSUME + (["part W: the same scripts over the real stack - http.Server, x/net/websocket codec, websocket.Handle with HandlerWithLogs+HandlerWithMetrics as composed in cmd/main.go, clients over net.Pipe in the bubble"] if wire else []), "parts": parts}

PROPS = {
    "C01": model("TestC01Model", 2500, 20000, wire="TestC01Wire"),
    "C02": model("TestC02Model", 2500, 20000, wire="TestC02Wire"),
    "C03": model("TestC03Isolation", 1200, 8000),
    "C04": model("TestC04Model", 2500, 25000, wire="TestC04Wire"),
    "C05": model("TestC05Model", 2500, 15000, wire="TestC05Wire"),
    "C06": model("TestC06Model", 2500, 12000, wire="TestC06Wire"),
    "C07": model("TestC07Model", 2000, 10000, wire="TestC07Wire"),
    "C08": {"level": "fault_enumeration", "assumptions": MODEL_ASSUME + ["wire driver: real http.Server + x/net/websocket + websocket.Handle with the production decorators over net.Pipe; net.Pipe has no buffering (stricter than TCP)", "a goroutine blocked on a sync.Mutex is not durably blocked for synctest: a wedge on a lock shows as a real-time timeout, which the driver re-runs alone and reports only if it does not terminate again"],
            "parts": [H("TestC08Hostile", "W", 500, 6000, qs=2, ts=16, hang_is_violation=True), H("TestC08Burst", "Wburst", 1500, 10000, qs=2, ts=16, hang_is_violation=True),
                      H("TestC08IdleRace", "Wtie", 600, 5000, qs=1, ts=16, hang_is_violation=True)]},
    "C10": model("TestC10Model", 2500, 10000, wire="TestC10Wire"),
    "C11": model("TestC11Model", 2500, 15000, wire="TestC11Wire"),
    "C12": model("TestC12Model", 3000, 25000, wire="TestC12Wire"),
    "C13": model("TestC13Model", 3000, 25000, wire="TestC13Wire"),
    "C14": model("TestC14Model", 2500, 15000, wire="TestC14Wire"),
    "C16": model("TestC16Model", 2500, 15000, wire="TestC16Wire"),
    "C17": model("TestC17Flags", 1000, 6400),
    "C18": model("TestC18Model", 2000, 12000, wire="TestC18Wire"),
}

_T = "stateful property-based testing (rapid) against a reference model, handler-level driver in a synctest bubble"
_N = "Trusted: the reference model as a reading of the property text; hagall-common dispatcher and protobuf codec as given; the handler-level driver bypasses the TCP/WebSocket layer. Sequential histories only in this part."
def _m(text, ref):
    return {"text": text + " Exploration level: the property held on every generated history; no claim of absence.", "design_ref": ref, "note": _N, "technique": _T}

PROPS["C20"] = {"level": "exploration",
    "assumptions": ["RegularGrid is inspected through its exported fields and methods plus an overlay accessor for the private vector coordinates", "tolerances: cell overlap and bounds 1e-3 m; primitives: sum of absolute terms * 2^-20; decisions asserted only away from the decision boundary", "quads are horizontal ground planes (extents y = 0) with positive extents, coordinates bounded by 64 m"],
    "parts": [H("TestC20Grid", "grid", 1200, 60000, qs=2, ts=16, rapid=True, hang_is_violation=True), H("TestC20Primitives", "prim", 30000, 1000000, qs=1, ts=16), H("TestC20Shared", "shared", 1500, 20000, qs=1, ts=16, hang_is_violation=True)]}

PROPS["C19"] = {"level": "fault_enumeration",
    "assumptions": MODEL_ASSUME + ["part verify: independent math/big secp256k1 recoverability reference and x/crypto Keccak-256", "part forward: real ReceiptHandler loop and real net/http client against an in-process HTTP server over loopback TCP in real time; waiting is bounded, an exhausted wait is inconclusive, never a violation"],
    "parts": [H("TestC19Verify", "verify", 2500, 60000, qs=2, ts=16), H("TestC19Forward", "forward", 25, 300, qs=2, ts=16),
              H("TestC19Model", "H", 1500, 8000, qs=2, ts=16, hang_is_violation=True), H("TestC19Wire", "W", 200, 2000, qs=1, ts=16, hang_is_violation=True)]}

PROPS["C15"] = {"level": "exploration",
    "assumptions": ["tokens are built by the reference itself (own base64url/JSON/HMAC code); admission is known by construction, never by parsing", "claim times are kept >= 3 s away from every decision boundary (now, the 10 s issued-at leeway)", "in-process: hdsclient.Client.SetServerData plays the discovery service; which routes cmd/main.go puts behind the check is decided by the binary part (if present)"],
    "parts": [H("TestC15Auth", "inproc", 6000, 200000, qs=2, ts=16)]}

PROPS["C09"] = {"level": "exploration",
    "assumptions": ["part R: real goroutines and real time, test binary built with -race; the interleavings explored are whatever the Go scheduler produces (16 cores); a watchdog hit is inconclusive (exit 2), never a violation", "data races are those the race detector observes in these executions"],
    "parts": [dict(H("TestC09Race", "R", 40, 400, qs=2, ts=16), race=True)]}

PROPS["C02"]["parts"].append(H("TestC02Backpressure", "Wbp", 60, 600, qs=2, ts=16, hang_is_violation=True))
PROPS["C04"]["parts"].append(H("TestC04Backpressure", "Wbp", 60, 600, qs=1, ts=16, hang_is_violation=True))
PROPS["C01"]["parts"].append(H("TestC01Backpressure", "Wbp", 60, 600, qs=1, ts=16, hang_is_violation=True))
_BIN = ["part binary: the real executable built from /repo/cmd, a fake discovery service that completes (or withholds) the registration, a harness-owned credit service, real WebSocket clients over loopback TCP, real time; a start-up or transport problem is inconclusive (skip), never a violation"]
PROPS["C15"]["parts"].append(H("TestC15Binary", "binary", 40, 600, qs=1, ts=4))
PROPS["C15"]["assumptions"] += _BIN
PROPS["C15"]["parts"].append(dict(H("TestC15Race", "R", 60, 1500, qs=2, ts=16), race=True))
PROPS["C15"]["assumptions"] += ["part R: real threads, -race binary; the interleavings of requests with re-registrations are whatever the Go scheduler produces; the oracle uses an exact log of which secrets may have been current during each request, so it cannot fail on a correct tree"]
PROPS["C17"]["parts"].append(H("TestC17Wire", "W", 150, 1500, qs=1, ts=16, hang_is_violation=True))
PROPS["C17"]["parts"].append(H("TestC17Binary", "binary", 8, 120, qs=1, ts=8))
PROPS["C17"]["assumptions"] = PROPS["C17"]["assumptions"] + _BIN
PROPS["C19"]["parts"].append(H("TestC19Binary", "binary", 15, 200, qs=1, ts=4))
PROPS["C19"]["assumptions"] += _BIN
PROPS["C08"]["parts"].append(H("TestC08Binary", "binary", 40, 600, qs=1, ts=4))
PROPS["C08"]["assumptions"] += _BIN
PROPS["C08"]["parts"].append(H("TestC08BinaryIdle", "binidle", 3, 40, qs=1, ts=4))
PROPS["C18"]["parts"].append(H("TestC18Binary", "binary", 4, 60, qs=1, ts=4))
PROPS["C18"]["assumptions"] = PROPS["C18"]["assumptions"] + _BIN
PROPS["C16"]["parts"].append(H("TestC16Binary", "binary", 20, 300, qs=1, ts=4))
PROPS["C16"]["assumptions"] = PROPS["C16"]["assumptions"] + _BIN
PROPS["C20"]["parts"].append(H("TestC20Binary", "binary", 15, 200, qs=1, ts=4))
PROPS["C20"]["assumptions"] = PROPS["C20"]["assumptions"] + _BIN
_FUZZ_RULE = "native Go fuzzing (coverage guided) of one message sent by a joined member that owns an entity, in a session with a witness, a subscribed component type and all modules, plus a bystander session; input = message type number and the raw bytes of all fields >= 3; state rebuilt every iteration; oracle: no panic, witness replica == server state, bystander session untouched, sender still a member or gone through the normal path, witness still served; quick tier replays the seed corpus (26 message types x 9 field blobs) and every saved crasher; non-trivial = inputs that reached new coverage (thorough) / replayed inputs (quick)"
for _p in ("C08", "C04"):
    PROPS[_p]["parts"].append({"name": "fuzz", "gofuzz": "FuzzHandleMessage", "fuzztime": 240, "rule": _FUZZ_RULE, "test": "FuzzHandleMessage"})
for _p in ("C01", "C02", "C06", "C07", "C08", "C09", "C10", "C11", "C12", "C13", "C16"):
    PROPS[_p]["parts"].append(dict(H("Test%sSched" % _p, "S", 1500, 4000, qs=2, ts=16, hang_is_violation=True), sched=True))
    PROPS[_p]["assumptions"] = PROPS[_p]["assumptions"] + ["part S: scheduling points exist only at the lock acquisitions of models/*.go and modules/*/state.go (sync import redirected to the overlay package vsync); interleavings inside a critical section are not explored; RWMutex is modelled with Go's writer preference; the driver has no clock: a frame is a step that dispatches the session's per-frame callbacks through an overlay hook, after which every connection handles what was released as part of its task; thorough tier enumerates all schedules with <= 2 preemptions for up to 120 generated blocks per shard (at most 2000 schedules each)"]
PROPS["C06"]["parts"].append(H("TestC06Backpressure", "Wbp", 40, 400, qs=1, ts=8, hang_is_violation=True))
PROPS["C11"]["parts"].append(H("TestC11Backpressure", "Wbp", 40, 400, qs=1, ts=8))
PROPS["C11"]["assumptions"] = PROPS["C11"]["assumptions"] + ["part Wbp runs on real threads in real time (a synctest bubble cannot see goroutines blocked on a mutex); waiting is bounded and an exhausted wait is inconclusive"]
PROPS["C10"]["parts"].append(dict(H("TestC10IDsExhaustive", "ids", 1, 1, qs=1, ts=1), rapid=False))
PROPS["C10"]["parts"].append(H("TestC10IDsConcurrent", "idsR", 60, 600, qs=2, ts=16))
PROPS["C10"]["assumptions"] = PROPS["C10"]["assumptions"] + ["part idsR: real threads on the exported id sources (plain binary, 16 cores); the interleavings are whatever the Go scheduler produces"]

META = {
    "C09": {"text": "Randomised real-thread executions under the Go race detector: 2-16 concurrent clients in shared sessions, all modules, both through websocket.Handle with the production logging/metrics decorators (clients keep reading) and against bare handlers (higher contention); any race report, panic, unanswered request, or residue after all clients left fails the check. Exploration level: schedules are sampled, not enumerated.",
            "design_ref": "DESIGN.md 4 (C09)", "note": "Trusted: Go's race detector; the client mix in harness/props/c09_test.go. Lock-granularity enumeration (scheduled driver) is a separate part when present.", "technique": "randomised concurrent stress generation (rapid-seeded) with the Go race detector and liveness/residue oracles"},
    "C15": {"text": "Stateful property test of both admission entry points (VerifyAuthTokenHandler, WebSocket handshake callback) against a by-construction reference: sequences of secret issuance/rotation/removal and token presentations (valid and every mutation class, all carriers and combinations, earlier token strings presented again after rotation). The inner handler must run exactly when the token is sound for the secret currently held, whatever the HTTP method; otherwise 401 and no handler code. Part R repeats this while another thread keeps re-registering the server (secret withdrawn / re-issued / rotated): tokens signed with the empty key or a never-issued key must never get in. Exploration level.",
            "design_ref": "DESIGN.md 4 (C15)", "note": "Trusted: the token builder/reference in harness/props/c15_test.go; golang-jwt and hagall-common are taken as given but are exercised, not modelled.", "technique": "stateful property-based testing (rapid) with a by-construction reference oracle"},
    "C19": {"text": "Four parts. verify: VerifyPayload against an independent reference (own Keccak-256 call, math/big secp256k1 recoverability) on valid triples and every single-field corruption, both directions. forward: the real HandleReceipts loop posting to an in-process credit service that is up, slow, drops the connection after reading, or is down - the multiset of POSTed bodies must equal the well-formed submissions, unchanged, once each. H/W: receipt-heavy histories against queues of capacity 1/2/128 that nobody drains - exactly one answer per submission (accepted / bad request / too busy), immediately, queue content == accepted receipts, connection stays usable.",
            "design_ref": "DESIGN.md 4 (C19)", "note": "Trusted: the reference implementations in harness/props/c19_test.go; receipt wiring in cmd/main.go (queue size, HandleReceipts started) is outside these parts.", "technique": "property-based testing (rapid) with an independent reference implementation, plus fault injection on the forwarding path"},
    "C20": {"text": "Three generated-input oracles: (grid) insertion sequences of up to 40 quads with forced merges, merge chains and growth in all four directions, all index invariants re-checked after every insertion through exported API; (prim) Dot, Cross, normal, overlap test and ray/quad intersection against math/big.Rat evaluation of the same float32 inputs within stated tolerances; (shared) differential against a local grid fed with the same samples while members join and leave - the index must be shared and kept while the session lives. Exploration level.",
            "design_ref": "DESIGN.md 4 (C20)", "note": "Trusted: the invariant checker (harness/props/c20_test.go); float tolerances as stated; only horizontal planes are generated.", "technique": "property-based testing (rapid): data-structure invariants after every operation, exact-arithmetic reference, differential against a local instance"},
    "C03": {"text": "Three oracles over generated multi-session histories (never-joining connections, switches, returns, ids valid only elsewhere, reused session ids): (a) the reference model - nothing a connection sends shows up in a session it is not in; (b) a differential (noninterference) oracle - for every session instance T the concrete trace is re-run on a fresh server keeping only the stints of connections while they are in T, and every stint's normalised message stream (session ids masked) must be identical; (c) the ground-plane index belongs to the session instance: as long as no member of the instance has sent a sample, every ground-plane, region and debug-info answer must be that of an empty grid (planes wholly inside the initial grid cell and queries spanning it are generated on purpose; this oracle does not depend on the state of earlier cases, so a leak through package-level state is reported, not lost as 'cannot reproduce'). Exploration level: held on every generated history; no claim of absence.",
            "design_ref": "DESIGN.md 4 (C03)", "note": _N + " Receipts (one global queue by design) and signed latency are excluded from these scripts; session references that depend on which released id is reissued next are rewritten.", "technique": "differential / noninterference property-based testing (rapid): full history vs per-session projection, plus reference model"},
    "C08": {"text": "Fault enumeration on the real stack: generated histories with hostile steps (undecodable/text/untimestamped frames, typed bodies that do not decode, pipelined bursts of 1-64 failing requests and up to 300 pings, absent sub-messages, non-finite/huge/subnormal coordinates, unknown types, silence, clients that stop reading, transport aborts) run over websocket.Handle with the production decorators on a fake clock with a 0.3-2 s idle timeout. After every step: no panic, exactly the connections the model says are ended (idle deadlines to the nanosecond; a client that keeps sending is not ended), departures as in C06, all other members' replicas and all sessions' server state untouched; at the end every handler returned, no connection/session goroutine is left, ws_connected_clients and session_count are back. A second part repeats pipelined bursts of failing requests thousands of times because the outcome depends on Go's randomised select.",
            "design_ref": "DESIGN.md 4 (C08)", "note": "Trusted: reference model; net.Pipe instead of TCP (no kernel buffering); survival of the OS process itself is not covered by this part (in-process panics are recorded the way net/http would swallow them).", "technique": "model-based fault injection with rapid on the real connection handler in a synctest bubble; repeated-schedule search for select-dependent outcomes"},
    "C11": _m("Pose-heavy histories on the fake clock (sequence number in px, arbitrary float bit patterns, foreign/unknown/deleted entities, absent pose, deletions and switches while updates are pending): per frame exactly the latest update of each owned live entity is applied and relayed once to the others, nothing for dropped updates, and the stored pose is what joiners are handed.", "DESIGN.md 4 (C11)"),
    "C17": {"text": "Metamorphic relation: each generated history is run flag-free under the reference model, then its concrete trace is replayed on a fresh flag-free server and on a fresh server with flag set F (singles, empty, full, random subsets, unknown names; thorough: all 1024 subsets). Per connection and step the F stream must equal the flag-free stream minus exactly the classes F names, and the final server state must be identical. Exploration level.",
            "design_ref": "DESIGN.md 4 (C17)", "note": _N + " HAGALL_FEATURE_FLAGS parsing in cmd/main.go is outside this part.", "technique": "metamorphic property-based testing (rapid): flag-free run vs run under flag set F"},
    "C18": _m("Signed-latency runs on the fake clock: the scripted client answers each ping after a chosen delay (1us..1s), sometimes twice, with unknown ids, after completion, or restarts; the final response must carry a signature that recovers (independent Keccak-256 + secp256k1 recovery) to the server wallet over exactly the returned bytes, name client/session UUID/wallet, list exactly the issued ping ids, have consistent statistics and last == delay of the final round; misbehaving answers must be refused and not advance the run.", "DESIGN.md 4 (C18)"),
    "C01": _m("Every connection's replica (built from SESSION_STATE/VIKJA_STATE/ODAL_STATE, updated by each broadcast in arrival order, and by its own accepted requests) is compared after every step with the reference model, which is itself compared with the server's state read through exported API; every broadcast must be applicable to the replica it reaches; every joiner's snapshot must equal the model.", "DESIGN.md 2.2-2.3, 4 (C01)"),
    "C02": _m("For every accepted change the model computes the exact recipient set; each recipient's inbox must hold exactly one matching relay (ids, body, origin timestamp), the sender and non-members none, and nothing may be left over anywhere after the step - which also fixes per-sender order in sequential histories.", "DESIGN.md 4 (C02)"),
    "C04": _m("After every step the requester's inbox must hold exactly one answer of the defined type / an error code from the acceptable set, nobody else anything unexpected, and the server state must equal the model - so a refused request provably changed nothing; requests from connections in no session may only be answered with an error, dropped, or end the connection.", "DESIGN.md 2.1-2.4, 4 (C04)"),
    "C05": _m("Histories biased to foreign delete / pose / asset attempts, including by participants that joined after the owner left; the model refuses them and the inbox, replica and server-state comparisons show nothing changed; every participant id returned by a join must be new for its session.", "DESIGN.md 4 (C05)"),
    "C06": _m("Departures by close, handler error, frame without timestamp and session switch: the remaining members must receive exactly one delete per removed entity and one leave; server state afterwards holds exactly the persistent entities with their attachments; later joiners are handed them.", "DESIGN.md 4 (C06)"),
    "C07": _m("Join/switch/close cycles over many sessions with id reuse: after every step id resolution for live and ended sessions, UUID freshness, the session_count gauge (prometheus default gatherer) and the number of frame-worker goroutines are compared with the model. Sequential part only; the concurrent clause needs the scheduled driver.", "DESIGN.md 4 (C07)"),
    "C10": _m("History invariants kept by the model: no two live sessions share an id, participant/entity/asset-instance ids returned by the server were never returned before in that session, type ids and names stay a bijection, re-registration returns the same id.", "DESIGN.md 4 (C10)"),
    "C12": _m("Component requests with ids that exist, never existed or no longer exist are checked against a map model: add/update/delete outcomes and codes, list contents, cascades through entity removal and owner departure, name/id lookups, and that an update of an absent component reaches nobody.", "DESIGN.md 4 (C12)"),
    "C13": _m("The model computes from the whole subscribe/unsubscribe/join/leave history who must be notified of each component add, update and delete; inboxes must match exactly (leftover messages are violations).", "DESIGN.md 4 (C13)"),
    "C14": _m("Custom messages with bodies around the 10240-byte limit and recipient lists over members, strangers, departed ids, duplicates and the sender: exact recipient set, byte-identical body, sender's participant id, exactly one TOO_LARGE error and no delivery above the limit.", "DESIGN.md 4 (C14)"),
    "C16": _m("vikja+odal histories with equal, decreasing, zero, negative and far-future action timestamps and repeated asset adds: refusal of older actions, replacement and relay of equal/newer ones, fresh asset-instance ids, one asset per entity, and the module state handed to every joiner, all against the model.", "DESIGN.md 4 (C16)"),
}

"""Which test functions decide which property, and with what budget.

Every part is one Go test function in harness/props, run as <shards> processes
with distinct seeds; `checks` is the rapid case count per shard.
"""

def H(test, name, q, t, qs=2, ts=16, **kw):
    d = {"name": name, "test": test,
         "quick": {"shards": qs, "checks": q, "timeout": 240},
         "thorough": {"shards": ts, "checks": t, "timeout": 3000}}
    d.update(kw)
    return d

PROPS = {
    "C04": {
        "level": "exploration",
        "assumptions": [
            "driver H calls the real handler.handleMessage through an overlay export; hwebsocket.Receive/Dispatch are emulated (timestamp check, type as hagallpb.MsgType)",
            "reference model written from the property statements; error codes pinned as in the repository's unit tests",
        ],
        "parts": [H("TestC04Model", "H", 2500, 25000, hang_is_violation=True)],
    },
}

META = {
    "C04": {
        "text": "Model-based property test: rapid-generated request histories (all 20+ request kinds, valid/zero/unknown/foreign ids, absent sub-messages, joined and not-joined connections) are run against the real handlers; after every step the requester's inbox must hold exactly one answer of the defined type/code, nobody else anything unexpected, and the server state (read through exported API) must equal the reference model - so a refused request provably changed nothing. Exploration level: held on every generated history, no claim of absence.",
        "design_ref": "DESIGN.md 2.1-2.4, 4 (C04)",
        "note": "Trusted: the reference model (harness/props/model.go, exec.go) as a reading of the property text; hagall-common dispatcher and protobuf codec as given; handler-level driver bypasses the TCP/WebSocket layer (covered by the wire driver parts).",
        "technique": "stateful property-based testing (rapid) against a reference model, handler-level driver in a synctest bubble",
    },
}

#!/usr/bin/env python3
"""package_seed.py <src dir> <seed id> <property> <caught-by json> : copy a confirmed seeded change into /verif/seeded/<id>/"""
import json, os, shutil, sys, subprocess
src, sid, prop, caught = sys.argv[1], sys.argv[2], sys.argv[3], json.loads(sys.argv[4])
dst = f"/verif/seeded/{sid}"
os.makedirs(dst, exist_ok=True)
for f in ("patch.diff", "demo_test.go", "notes.md"):
    if os.path.exists(os.path.join(src, f)):
        shutil.copy(os.path.join(src, f), os.path.join(dst, f))
notes = open(os.path.join(src, "notes.md")).read() if os.path.exists(os.path.join(src, "notes.md")) else ""
place = "websocket/"
for l in open(os.path.join(src, "demo_test.go")).read().splitlines()[:3]:
    if "place in:" in l:
        place = l.split("place in:")[1].strip().split()[0]
meta = {
    "seed_id": sid,
    "property": prop,
    "origin": "written by an independent sub-agent that saw only the property text and a scratch worktree of /repo",
    "base_commit": subprocess.run(["git", "-C", "/repo", "rev-parse", "--short", "HEAD"], capture_output=True, text=True).stdout.strip(),
    "demo_placement": place,
    "needs_to_manifest": caught.pop("needs", ""),
    "confirmed": {
        "how": "tools/confirm_seed.sh in a scratch worktree of /repo HEAD: demo on pristine tree passes, patch applies, demo with patch fails, go build ./... ok, existing suite (go test -vet=off -count=1 ./...) passes with the patch",
        "demo_pristine": "pass", "demo_with_patch": "fail", "existing_suite_with_patch": "pass",
    },
    "checks_run": caught,
}
json.dump(meta, open(os.path.join(dst, "meta.json"), "w"), indent=1)
print("packaged", dst)

#!/usr/bin/env python3
"""Regenerates /verif/MANIFEST.json from tools/registry.py (keeps it valid at all times)."""
import json, os, sys
HERE = os.path.dirname(os.path.abspath(__file__))
sys.path.insert(0, HERE)
from registry import PROPS, META
VERIF = os.path.dirname(HERE)
ids = [json.loads(l)["id"] for l in open(os.path.join(VERIF, "properties.jsonl"))]
checks = []
for pid in ids:
    if pid not in PROPS:
        continue
    m = META[pid]
    checks.append({
        "property_id": pid,
        "quick_cmd": f"./check {pid} --tier quick",
        "thorough_cmd": f"./check {pid} --tier thorough",
        "evidence_file": f"evidence/{pid}.json",
        "replay_cmd_template": f"./check {pid} --replay {{path}}",
        "engine": "harness",
        "level_claimed": {"category": PROPS[pid].get("level", "exploration"), "text": m["text"], "design_ref": m["design_ref"]},
        "level_note": m["note"],
        "technique": m["technique"],
    })
na = [{"property_id": pid, "reason": META.get(pid, {}).get("na_reason", "check not built yet in this round; planned in DESIGN.md section 4")} for pid in ids if pid not in PROPS]
man = {
    "version": 1,
    "setup_cmd": "./check build",
    "hooks": {
        "guard": "verif",
        "enable": "go1.26.8 test -tags verif -overlay <generated> -vet=off (hook sources live in /verif/hooks and are injected by overlay; nothing is committed to /repo)",
        "baseline_off_cmd": "cd /repo && go test -vet=off -count=1 ./...",
        "source_commits": [],
        "add_only": True,
    },
    "engines": [{"name": "harness", "path": "harness/", "serves_properties": [c["property_id"] for c in checks],
                 "kind_free_text": "Go module (go1.26.8, rapid v1.3.0, testing/synctest) compiled against /repo's working tree with export hooks added by -overlay; driven by ./check"}],
    "checks": checks,
    "notes": "exit 0 = held on everything explored; 1 = VIOLATION line with replay file; 2 = infrastructure/budget (no verdict). Known findings: known_findings.json.",
    "not_applicable": na,
}
json.dump(man, open(os.path.join(VERIF, "MANIFEST.json"), "w"), indent=1)
print("MANIFEST.json:", len(checks), "checks,", len(na), "not claimed")

#!/usr/bin/env python3
"""Regenerates /verif/MANIFEST.json from tools/registry.py (keeps it valid at all times)."""
import json, os, sys
HERE = os.path.dirname(os.path.abspath(__file__))
sys.path.insert(0, HERE)
from registry import PROPS, META
VERIF = os.path.dirname(HERE)
ids = [json.loads(l)["id"] for l in open(os.path.join(VERIF, "properties.jsonl"))]
PART_DESC = {
    "H": "generated histories on the handler-level driver against the reference model",
    "W": "the same histories over the real connection stack (http.Server, x/net/websocket, websocket.Handle with the production decorators)",
    "S": "concurrent blocks of 2-3 requests under a cooperative lock-level scheduler (sampled schedules; thorough: all schedules with <= 2 preemptions), invariants at quiescence",
    "Wbp": "back-pressure scenario: a member stops reading while others pipeline requests / leave / move",
    "R": "real threads (-race binary), sampled interleavings",
    "binary": "the real executable with a fake discovery service and credit service",
    "binidle": "the real executable with a short HAGALL_CLIENT_IDLE_TIMEOUT: silent clients are dropped, talking ones are not",
    "fuzz": "native Go fuzz target (quick: corpus replay, thorough: coverage-guided)",
    "idsR": "real threads on the exported id sources with an atomic ownership table",
    "ids": "complete enumeration of id-source sequences",
}
checks = []
for pid in ids:
    if pid not in PROPS:
        continue
    m = dict(META[pid])
    names = [p["name"] for p in PROPS[pid]["parts"]]
    extra = [f"{n} = {PART_DESC[n]}" for n in names if n in PART_DESC and n not in ("H",)]
    if extra and "Parts of this check" not in m["text"]:
        m["text"] += " Parts of this check besides the one described: " + "; ".join(extra) + "."
    if "S" in names and "schedule" not in m["technique"]:
        m["technique"] += "; schedule exploration over generated concurrent blocks (cooperative lock-level scheduler, rapid-drawn and bounded-preemption-enumerated schedules)"
    checks.append({
        "property_id": pid,
        "quick_cmd": f"./check {pid} --tier quick",
        "thorough_cmd": f"./check {pid} --tier thorough",
        "evidence_file": f"evidence/{pid}.json",
        "replay_cmd_template": f"./check {pid} --replay {{path}}",
        "engine": "harness",
        "level_claimed": {"category": PROPS[pid].get("level", "exploration"), "text": m["text"], "design_ref": m["design_ref"]},
        "level_note": m["note"],
        "technique": m["technique"],
    })
na = [{"property_id": pid, "reason": META.get(pid, {}).get("na_reason", "check not built yet in this round; planned in DESIGN.md section 4")} for pid in ids if pid not in PROPS]
man = {
    "version": 1,
    "setup_cmd": "./check build",
    "hooks": {
        "guard": "verif",
        "enable": "go1.26.8 test -tags verif -overlay <generated> -vet=off (hook sources live in /verif/hooks and are injected by overlay; nothing is committed to /repo)",
        "baseline_off_cmd": "cd /repo && go test -vet=off -count=1 ./...",
        "source_commits": [],
        "add_only": True,
    },
    "engines": [{"name": "harness", "path": "harness/", "serves_properties": [c["property_id"] for c in checks],
                 "kind_free_text": "Go module (go1.26.8, rapid v1.3.0, testing/synctest) compiled against /repo's working tree with export hooks added by -overlay; driven by ./check"}],
    "checks": checks,
    "notes": "exit 0 = held on everything explored; 1 = VIOLATION line with replay file; 2 = infrastructure/budget (no verdict). Known findings: known_findings.json.",
    "not_applicable": na,
}
json.dump(man, open(os.path.join(VERIF, "MANIFEST.json"), "w"), indent=1)
print("MANIFEST.json:", len(checks), "checks,", len(na), "not claimed")

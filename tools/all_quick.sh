#!/bin/bash
# Runs every registered quick check on the current tree (regenerates all evidence files).
cd "$(dirname "$0")/.."
FAIL=0
for P in $(python3 -c "
import sys; sys.path.insert(0,'tools')
from registry import PROPS
print(' '.join(sorted(PROPS)))"); do
  OUT=$(./check $P --tier ${TIER:-quick} 2>&1); RC=$?
  mkdir -p .build/logs; echo "$OUT" > .build/logs/$P.${TIER:-quick}.log   # full output (violation messages) for later inspection
  echo "$OUT" | grep -E "^\[$P\]|VIOLATION|KNOWN-FINDING" | cut -c1-220
  [ $RC -ne 0 ] && { echo "  -> $P exit $RC"; FAIL=1; }
done
exit $FAIL

#!/usr/bin/env python3
"""Syntactic mutation sweep (sensitivity analysis of the checks; not a registered check).

stage A  for every mutant of tools/mutsweep/gen.go: apply it to a scratch copy of /repo (never /repo
         itself), compile, run the repository's own test suite; mutants that do not compile or that the
         suite kills are dropped.
stage B  survivors of A: build the plain harness binary from the scratch copy and run the H-level /
         in-process parts of the properties mapped to the mutated file, in order, until one reports a
         violation.
stage C  survivors of B: all parts (wire, scheduled, race, binary) of the mapped properties.

usage: sweep.py A|B|C <workers> [mutant ids...]      results: seeded/sweep/<stage>.jsonl (appended)
"""
import json, os, sys, shutil, subprocess, hashlib, concurrent.futures as cf, threading, time
VERIF = "/verif"; REPO = "/repo"; WORK = "/tmp/mw"; OUT = os.path.join(VERIF, "seeded", "sweep")
ENV = dict(os.environ, GOFLAGS="-mod=mod", GOPROXY="off", GOSUMDB="off", GOTOOLCHAIN="local")
FILES = """models/session.go models/entity.go models/id.go models/participant.go models/signed_latency.go
websocket/realtime.go websocket/handler.go modules/vikja/vikja.go modules/vikja/state.go modules/odal/odal.go
modules/odal/state.go modules/dagaz/dagaz.go modules/dagaz/math.go modules/dagaz/grid_spatial_partition.go
modules/dagaz/state.go http/auth.go http/http.go http/handler.go receipt/handler.go featureflag/featureflag.go
featureflag/flags.go cmd/main.go""".split()
MAP = {
    "models/session.go": "C01 C02 C07 C04 C06 C10 C11 C14 C13 C05 C03 C17 C09 C08",
    "models/entity.go": "C12 C13 C01 C05 C06 C11 C04 C10 C02 C09",
    "models/id.go": "C10 C07 C01 C09",
    "models/participant.go": "C02 C14 C01 C04 C13",
    "models/signed_latency.go": "C18",
    "websocket/realtime.go": "C04 C02 C01 C12 C13 C14 C05 C06 C07 C11 C17 C18 C19 C10 C03 C16 C08 C09",
    "websocket/handler.go": "C08 C04 C02 C06 C11 C01",
    "modules/vikja/vikja.go": "C16 C04 C01 C06 C03 C17", "modules/vikja/state.go": "C16 C01 C06 C09",
    "modules/odal/odal.go": "C16 C04 C01 C06 C05 C03 C17", "modules/odal/state.go": "C16 C01 C06 C09",
    "modules/dagaz/dagaz.go": "C20 C04 C08 C09", "modules/dagaz/math.go": "C20 C04 C08",
    "modules/dagaz/grid_spatial_partition.go": "C20 C04 C08", "modules/dagaz/state.go": "C20 C09",
    "http/auth.go": "C15", "http/http.go": "C15 C08", "http/handler.go": "C15",
    "receipt/handler.go": "C19", "featureflag/featureflag.go": "C17", "featureflag/flags.go": "C17",
    "cmd/main.go": "C15 C17 C19 C08",
}
# stage C: the complete quick checks (wire, scheduled, race and binary parts included) most likely to see the file
MAPC = {
    "models/session.go": "C07 C09 C02 C01 C06", "models/entity.go": "C12 C13 C09 C10", "models/id.go": "C10 C07",
    "models/participant.go": "C02 C14", "models/signed_latency.go": "C18",
    "websocket/realtime.go": "C08 C04 C07 C09 C02 C18", "websocket/handler.go": "C08 C04 C02 C06 C11",
    "modules/vikja/vikja.go": "C16 C08", "modules/vikja/state.go": "C16 C09", "modules/odal/odal.go": "C16 C08", "modules/odal/state.go": "C16 C09",
    "modules/dagaz/dagaz.go": "C20 C08", "modules/dagaz/math.go": "C20", "modules/dagaz/grid_spatial_partition.go": "C20",
    "modules/dagaz/state.go": "C20 C09", "http/auth.go": "C15", "http/http.go": "C15 C08", "http/handler.go": "C15",
    "receipt/handler.go": "C19", "featureflag/featureflag.go": "C17", "featureflag/flags.go": "C17",
    "cmd/main.go": "C15 C17 C19 C08 C16 C18 C20",
}
BINARY_ONLY = {"cmd/main.go"}  # only the parts that run the executable can see these
lock = threading.Lock()

def mutants():
    """Mutants of /repo HEAD; the sweep works on an export of HEAD, so /repo's working tree may change meanwhile."""
    global REPO
    gen = os.path.join(WORK, "gen")
    os.makedirs(WORK, exist_ok=True)
    base = os.path.join(WORK, "base")
    if not os.path.exists(os.path.join(base, "go.mod")):  # one export for all stages of a sweep
        shutil.rmtree(base, ignore_errors=True); os.makedirs(base)
        subprocess.run("git -C /repo archive HEAD | tar -x -C " + base, shell=True, check=True)
    REPO = base
    subprocess.run(["go", "build", "-o", gen, "gen.go"], cwd=os.path.join(VERIF, "tools", "mutsweep"), env=ENV, check=True)
    r = subprocess.run([gen, REPO] + FILES, capture_output=True, text=True, check=True)
    return [json.loads(l) for l in r.stdout.splitlines()]

def record(stage, obj):
    os.makedirs(OUT, exist_ok=True)
    with lock, open(os.path.join(OUT, stage + ".jsonl"), "a") as f:
        f.write(json.dumps(obj) + "\n")

def done(stage):
    p = os.path.join(OUT, stage + ".jsonl")
    return {json.loads(l)["id"]: json.loads(l) for l in open(p)} if os.path.exists(p) else {}

HEAD = None  # stage C: export of the CURRENT /repo HEAD (later repairs included); mutants are re-located in it

def scratch(worker, m):
    d = os.path.join(WORK, f"w{STAGE}{worker}")
    root = HEAD or REPO
    subprocess.run(["rsync", "-a", "--delete", "--exclude", ".git", root + "/", d + "/"], check=True)
    p = os.path.join(d, m["file"])
    src = open(p, "rb").read()
    start, end = m["start"], m["end"]
    if HEAD:
        base = open(os.path.join(REPO, m["file"]), "rb").read()
        ls = base.rfind(b"\n", 0, start) + 1
        le = base.find(b"\n", end)
        line = base[ls:le if le >= 0 else len(base)]          # the whole source line(s) of the mutated text
        rel = start - ls
        # the same line text in the current file, nearest to the original position
        cands, pos = [], src.find(line)
        while pos >= 0:
            cands.append(pos)
            pos = src.find(line, pos + 1)
        if not cands:
            raise RuntimeError("the mutated line was changed by a later repair")
        # the k-th occurrence of that line in the base is the k-th in the current file when both have
        # as many (the repairs inserted lines, they did not duplicate these); otherwise the nearest
        bc, bp = [], base.find(line)
        while bp >= 0:
            bc.append(bp)
            bp = base.find(line, bp + 1)
        pos = cands[bc.index(ls)] if len(bc) == len(cands) and ls in bc else min(cands, key=lambda x: abs(x - ls))
        start, end = pos + rel, pos + rel + (m["end"] - m["start"])
    assert src[start:end].decode() == m["old"], "mutant list is stale"
    open(p, "wb").write(src[:start] + m["new"].encode() + src[end:])
    return d

def stageA(worker, m):
    d = scratch(worker, m)
    res = {k: m[k] for k in ("id", "file", "line", "op", "old", "new")}
    r = subprocess.run(["go", "build", "./..."], cwd=d, env=ENV, capture_output=True, text=True)
    if r.returncode != 0:
        res["A"] = "does not compile"
    else:
        try:
            r = subprocess.run(["go", "test", "-vet=off", "-count=1", "-timeout", "120s", "./..."], cwd=d, env=ENV, capture_output=True, text=True, timeout=200)
            res["A"] = "survives" if r.returncode == 0 else "killed by the suite"
        except subprocess.TimeoutExpired:
            res["A"] = "killed by the suite (timeout)"
    record("A", res)
    return res

FLAKY = "TestHandlerHandleSignedLatency|TestHandleCustomMessage"  # load-sensitive tests of the repository's suite

def stageA2(worker, m):
    """Second look at a mutant the suite 'killed' while the machine was busy: is it killed by anything but
    the two load-sensitive tests, or by them reproducibly (3 of 3 runs)?"""
    d = scratch(worker, m)
    res = {k: m[k] for k in ("id", "file", "line", "op", "old", "new")}
    try:
        r = subprocess.run(["go", "test", "-vet=off", "-count=1", "-timeout", "120s", "-skip", FLAKY, "./..."], cwd=d, env=ENV, capture_output=True, text=True, timeout=200)
        if r.returncode != 0:
            res["A"] = "killed by the suite"
        else:
            fails = 0
            for _ in range(3):
                r = subprocess.run(["go", "test", "-vet=off", "-count=1", "-timeout", "120s", "-run", FLAKY, "./websocket/"], cwd=d, env=ENV, capture_output=True, text=True, timeout=200)
                fails += r.returncode != 0
                if r.returncode == 0:
                    break
            res["A"] = "killed by the suite" if fails == 3 else "survives"
            if fails and res["A"] == "survives":
                res["note"] = "first verdict was a load-dependent failure of the suite"
    except subprocess.TimeoutExpired:
        res["A"] = "killed by the suite (timeout)"
    res["recheck"] = True
    record("A", res)
    return res

def run_checks(worker, m, stage):
    d = scratch(worker, m)
    bdir = os.path.join(VERIF, ".build-" + hashlib.sha1(d.encode()).hexdigest()[:8])
    shutil.rmtree(bdir, ignore_errors=True)
    env = dict(ENV, VERIF_REPO=d, **({"VERIF_SCALE": "0.3"} if stage == "B" else {}), VERIF_EVIDENCE_DIR=os.path.join(WORK, f"ev{stage}{worker}"), VERIF_BUILD_KINDS="plain" if (stage == "B" or m["file"] in BINARY_ONLY) else "plain race sched")
    res = {k: m[k] for k in ("id", "file", "line", "op", "old", "new")}
    res["checks"] = {}
    t0 = time.time()
    try:
        r = subprocess.run([os.path.join(VERIF, "check"), "build"], env=env, capture_output=True, text=True, cwd=VERIF)
        if r.returncode != 0:
            res["verdict"] = "harness does not build"; record(stage, res); return res
        env["VERIF_SKIP_BUILD"] = "1"
        sys.path.insert(0, os.path.join(VERIF, "tools"))
        from registry import PROPS
        for prop in (MAP if stage == "B" else MAPC)[m["file"]].split():
            parts = PROPS[prop]["parts"]
            if stage == "C" and m["file"] in BINARY_ONLY:
                cmds = [[os.path.join(VERIF, "check"), prop, "--part", p["name"]] for p in parts if p["name"] in ("binary", "binidle")]
            elif stage == "B":
                names = ("H", "inproc", "verify", "grid", "prim", "shared", "ids", "forward")
                if m["file"] == "websocket/handler.go":
                    names = ("W", "Wburst", "Wtie", "Wbp")  # the connection loop is only exercised by the wire driver
                parts = [p for p in parts if not p.get("race") and not p.get("sched") and not p.get("gofuzz") and p["name"] in names]
                cmds = [[os.path.join(VERIF, "check"), prop, "--part", p["name"]] for p in parts]
            else:
                cmds = [[os.path.join(VERIF, "check"), prop]]
            if stage == "C" and m["file"] in BINARY_ONLY:
                pass
            for c in cmds:
                r = subprocess.run(c, env=env, capture_output=True, text=True, cwd=VERIF)
                key = prop + ("/" + c[3] if len(c) > 3 else "")
                res["checks"][key] = r.returncode
                if r.returncode == 1:
                    v = [l for l in r.stdout.splitlines() if "VIOLATION" in l]
                    res["verdict"] = "caught by " + key
                    res["wall_s"] = round(time.time() - t0)
                    record(stage, res); return res
        res["verdict"] = "not caught"
        res["wall_s"] = round(time.time() - t0)
        record(stage, res)
        return res
    finally:
        shutil.rmtree(bdir, ignore_errors=True)

STAGE = ""

def main():
    global STAGE
    stage, workers = sys.argv[1], int(sys.argv[2])
    STAGE = stage + os.environ.get("SWEEP_TAG", "")  # scratch directory names: lets two invocations of one stage run side by side
    only = set(sys.argv[3:])
    ms = mutants()
    if stage in ("B", "C"):
        global HEAD
        HEAD = os.path.join(WORK, "head" + os.environ.get("SWEEP_TAG", "") + stage)
        shutil.rmtree(HEAD, ignore_errors=True); os.makedirs(HEAD)
        subprocess.run("git -C /repo archive HEAD | tar -x -C " + HEAD, shell=True, check=True)
    if stage == "A":
        todo = [m for m in ms if m["id"] not in done("A")]
    elif stage == "A2":
        a = done("A")
        todo = [m for m in ms if a.get(m["id"], {}).get("A") == "killed by the suite" and not a[m["id"]].get("recheck")]
    elif stage == "B":
        a = done("A"); b = done("B")
        todo = [m for m in ms if a.get(m["id"], {}).get("A") == "survives" and m["id"] not in b]
        prio = ["websocket/realtime.go", "websocket/handler.go", "models/", "modules/vikja", "modules/odal", "http/", "receipt/", "featureflag/", "modules/dagaz/dagaz.go", "modules/dagaz/math.go", "modules/dagaz/", "cmd/"]
        todo.sort(key=lambda m: next((i for i, p in enumerate(prio) if m["file"].startswith(p)), 99))
    else:
        b = done("B"); c = done("C")
        skip = ("http/http.go", "http/handler.go")  # server start/stop, health/ready/version endpoints: no listed property
        todo = [m for m in ms if b.get(m["id"], {}).get("verdict") == "not caught" and m["id"] not in c and m["file"] not in skip]
        prio = ["websocket/realtime.go", "websocket/handler.go", "models/", "modules/vikja", "modules/odal", "http/", "receipt/", "featureflag/", "modules/dagaz/", "cmd/"]
        todo.sort(key=lambda m: next((i for i, p in enumerate(prio) if m["file"].startswith(p)), 99))
    if only:
        todo = [m for m in ms if m["id"] in only]
    print(f"stage {stage}: {len(todo)} mutants to do", flush=True)
    import queue
    q = queue.Queue()
    for m in todo: q.put(m)
    def loop(w):
        while True:
            try: m = q.get_nowait()
            except queue.Empty: return
            try:
                r = stageA(w, m) if stage == "A" else stageA2(w, m) if stage == "A2" else run_checks(w, m, stage)
                print(m["id"], m["file"], m["line"], m["op"], "=>", r.get("A") or r.get("verdict"), flush=True)
            except Exception as e:
                print(m["id"], "error", e, flush=True)
    ts = [threading.Thread(target=loop, args=(w,)) for w in range(workers)]
    [t.start() for t in ts]; [t.join() for t in ts]

main()

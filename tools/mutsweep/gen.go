// Command gen lists syntactic mutants of the non-test Go sources of a tree.
// Output: one JSON object per line {id, file, line, op, start, end, old, new}.
// A mutant is applied by replacing bytes [start,end) of file by new.
// Stdlib only, so that it runs with the default toolchain offline.
//
//	go run gen.go <repo> <file>...
package main

import (
	"encoding/json"
	"fmt"
	"go/ast"
	"go/parser"
	"go/token"
	"os"
	"path/filepath"
	"strconv"
)

type Mutant struct {
	ID    string `json:"id"`
	File  string `json:"file"`
	Line  int    `json:"line"`
	Op    string `json:"op"`
	Start int    `json:"start"`
	End   int    `json:"end"`
	Old   string `json:"old"`
	New   string `json:"new"`
}

var swaps = map[token.Token][]token.Token{
	token.EQL:  {token.NEQ},
	token.NEQ:  {token.EQL},
	token.LSS:  {token.LEQ, token.GEQ},
	token.LEQ:  {token.LSS, token.GTR},
	token.GTR:  {token.GEQ, token.LEQ},
	token.GEQ:  {token.GTR, token.LSS},
	token.LAND: {token.LOR},
	token.LOR:  {token.LAND},
	token.ADD:  {token.SUB},
	token.SUB:  {token.ADD},
	token.MUL:  {token.QUO},
	token.QUO:  {token.MUL},
}

func main() {
	repo := os.Args[1]
	enc := json.NewEncoder(os.Stdout)
	n := 0
	for _, rel := range os.Args[2:] {
		path := filepath.Join(repo, rel)
		src, err := os.ReadFile(path)
		if err != nil {
			fmt.Fprintln(os.Stderr, err)
			os.Exit(2)
		}
		fset := token.NewFileSet()
		f, err := parser.ParseFile(fset, path, src, 0)
		if err != nil {
			fmt.Fprintln(os.Stderr, err)
			os.Exit(2)
		}
		off := func(p token.Pos) int { return fset.Position(p).Offset }
		emit := func(op string, start, end int, repl string) {
			n++
			enc.Encode(Mutant{ID: fmt.Sprintf("m%04d", n), File: rel, Line: fset.Position(f.Pos()).Line + lineOf(src, start) - 1, Op: op, Start: start, End: end, Old: string(src[start:end]), New: repl})
		}
		inConst := map[ast.Node]bool{}
		ast.Inspect(f, func(nd ast.Node) bool {
			switch x := nd.(type) {
			case *ast.GenDecl:
				if x.Tok == token.CONST || x.Tok == token.IMPORT || x.Tok == token.TYPE {
					inConst[x] = true
					return false // constants are protocol numbers / limits: covered by literal mutation below only for var/func bodies
				}
			case *ast.BinaryExpr:
				for _, t := range swaps[x.Op] {
					s := off(x.OpPos)
					emit("binop "+x.Op.String()+"->"+t.String(), s, s+len(x.Op.String()), t.String())
				}
			case *ast.UnaryExpr:
				if x.Op == token.NOT {
					s := off(x.OpPos)
					emit("drop !", s, s+1, "")
				}
			case *ast.IfStmt:
				s, e := off(x.Cond.Pos()), off(x.Cond.End())
				emit("if false", s, e, "false && ("+string(src[s:e])+")")
				emit("if true", s, e, "true || ("+string(src[s:e])+")")
			case *ast.BlockStmt:
				for _, st := range x.List {
					stmtMut(st, off, src, emit)
				}
			case *ast.CaseClause:
				for _, st := range x.Body {
					stmtMut(st, off, src, emit)
				}
			case *ast.CommClause:
				for _, st := range x.Body {
					stmtMut(st, off, src, emit)
				}
			case *ast.BasicLit:
				if x.Kind == token.INT {
					v, err := strconv.ParseInt(x.Value, 0, 64)
					if err == nil {
						s, e := off(x.Pos()), off(x.End())
						emit("int+1", s, e, strconv.FormatInt(v+1, 10))
						if v > 0 {
							emit("int-1", s, e, strconv.FormatInt(v-1, 10))
						}
					}
				}
			case *ast.BranchStmt:
				s, e := off(x.Pos()), off(x.End())
				if x.Label == nil && x.Tok == token.CONTINUE {
					emit("continue->break", s, e, "break")
				}
				if x.Label == nil && x.Tok == token.BREAK {
					emit("break->continue", s, e, "continue")
				}
			}
			return true
		})
	}
}

func stmtMut(st ast.Stmt, off func(token.Pos) int, src []byte, emit func(string, int, int, string)) {
	s, e := off(st.Pos()), off(st.End())
	switch x := st.(type) {
	case *ast.ExprStmt:
		emit("del call", s, e, "")
	case *ast.IncDecStmt:
		emit("del incdec", s, e, "")
	case *ast.AssignStmt:
		if x.Tok != token.DEFINE {
			emit("del assign", s, e, "")
		}
	case *ast.DeferStmt:
		emit("del defer", s, e, "")
	case *ast.GoStmt:
		emit("del go", s, e, "")
	case *ast.SendStmt:
		emit("del send", s, e, "")
	case *ast.ReturnStmt:
		_ = x
	}
}

func lineOf(src []byte, offset int) int {
	l := 1
	for i := 0; i < offset && i < len(src); i++ {
		if src[i] == '\n' {
			l++
		}
	}
	return l
}

#!/bin/bash
# run_seed.sh <dir with patch.diff> <prop> [<prop>...]
# Applies the seeded change to /repo, runs the quick checks, ALWAYS restores /repo.
set -u
D=$(realpath "$1"); shift
cd /repo
if [ -n "$(git status --porcelain)" ]; then echo "SEED $D: /repo not clean, refusing"; exit 2; fi
if ! git apply "$D/patch.diff" 2>/dev/null; then echo "SEED $D: patch does not apply"; exit 2; fi
EVBAK=$(mktemp -d /tmp/evbak.XXXXXX); cp -a /verif/evidence/. "$EVBAK"/ 2>/dev/null
trap 'git -C /repo checkout -- . ; git -C /repo clean -fdq; rm -rf /verif/evidence; mkdir -p /verif/evidence; cp -a "$EVBAK"/. /verif/evidence/; rm -rf "$EVBAK"' EXIT
RES=""
for P in "$@"; do
  /verif/check "$P" --tier "${TIER:-quick}" > "/tmp/seedrun.$(basename $(dirname $D)).$(basename $D).$P.log" 2>&1; RC=$?
  RES="$RES $P=$RC"
done
echo "SEED $D:$RES"

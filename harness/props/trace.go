package props

import (
	"fmt"
	"sort"
	"strings"
	"time"

	"github.com/aukilabs/hagall-common/messages/hagallpb"
	"github.com/aukilabs/hagall-common/ncsclient"
	"github.com/aukilabs/hagall/models"
	hws "github.com/aukilabs/hagall/websocket"
	"google.golang.org/protobuf/proto"
	"google.golang.org/protobuf/reflect/protoreflect"
)

// A Trace is the concrete sequence of client actions of one executed script:
// what was put on which connection and when time passed. It can be replayed
// on another server (other flags, other sessions' traffic removed) without a
// reference model; session ids are translated by session *instance*.

type EvKind int

const (
	EvConnect EvKind = iota
	EvSend
	EvClose
	EvAdvance
)

type TraceEvent struct {
	Step  int
	Kind  EvKind
	Slot  int
	Gen   int // which connection of the slot (reconnects)
	Bytes []byte
	Dur   time.Duration

	// filled in by the executor after the step:
	Before, After int // session instance (creation order, 1-based) the actor was in; 0 = none
	JoinInst      int // for join requests: instance addressed (0 = new session, -1 = id that names no instance)
}

// recDriver records everything the executor does to the driver.
type recDriver struct {
	Driver
	ev     []TraceEvent
	gen    map[int]int
	step   *int
	onSend func(slot int)
}

func (r *recDriver) Inner() Driver { return r.Driver }

func newRecDriver(d Driver, step *int) *recDriver {
	return &recDriver{Driver: d, gen: map[int]int{}, step: step}
}

func (r *recDriver) Connect(slot int) {
	r.gen[slot]++
	r.ev = append(r.ev, TraceEvent{Step: *r.step, Kind: EvConnect, Slot: slot, Gen: r.gen[slot]})
	r.Driver.Connect(slot)
}

func (r *recDriver) Send(slot int, p proto.Message) {
	b, err := proto.Marshal(p)
	if err != nil {
		panic(err)
	}
	r.SendBytes(slot, b)
}

func (r *recDriver) SendBytes(slot int, b []byte) {
	r.ev = append(r.ev, TraceEvent{Step: *r.step, Kind: EvSend, Slot: slot, Gen: r.gen[slot], Bytes: b, JoinInst: -2})
	if r.onSend != nil {
		r.onSend(slot)
	}
	r.Driver.SendBytes(slot, b)
}

func (r *recDriver) Close(slot int) {
	r.ev = append(r.ev, TraceEvent{Step: *r.step, Kind: EvClose, Slot: slot, Gen: r.gen[slot]})
	r.Driver.Close(slot)
}

func (r *recDriver) Advance(d time.Duration) {
	r.ev = append(r.ev, TraceEvent{Step: *r.step, Kind: EvAdvance, Dur: d})
	r.Driver.Advance(d)
}

// ---------------------------------------------------------------------------
// normalised message streams

// normMsg renders a received message for comparison between runs: no
// timestamps, session ids / UUIDs replaced by the session instance, lists
// sorted, signed-latency payload reduced to its stable fields.
func normMsg(rx Rx, inst func(id string) string) string {
	switch m := rx.M.(type) {
	case *hagallpb.ParticipantJoinResponse:
		return fmt.Sprintf("JOIN_RESP{req=%d session=%s pid=%d}", m.RequestId, inst(m.SessionId), m.ParticipantId)
	case *hagallpb.SignedLatencyResponse:
		var d hagallpb.LatencyData
		proto.Unmarshal(m.Data, &d)
		ids := append([]uint32{}, d.PingRequestIds...)
		sort.Slice(ids, func(i, j int) bool { return ids[i] < ids[j] })
		return fmt.Sprintf("SIGNED_LATENCY_RESP{req=%d n=%d ids=%v wallet=%q min=%v max=%v mean=%v last=%v}", m.RequestId, d.IterationCount, ids, d.WalletAddress, d.Min, d.Max, d.Mean, d.Last)
	}
	return typeName(rx.T) + "{" + normFields(rx.M) + "}"
}

func normFields(m proto.Message) string {
	var parts []string
	m.ProtoReflect().Range(func(fd protoreflect.FieldDescriptor, v protoreflect.Value) bool {
		n := string(fd.Name())
		if n == "timestamp" || n == "type" {
			return true
		}
		if fd.IsList() && fd.Kind() == protoreflect.MessageKind {
			l := v.List()
			var ps []string
			for i := 0; i < l.Len(); i++ {
				ps = append(ps, "{"+normFields(l.Get(i).Message().Interface())+"}")
			}
			sort.Strings(ps)
			parts = append(parts, n+"=["+strings.Join(ps, ",")+"]")
			return true
		}
		if n == "origin_timestamp" {
			// request timestamps are part of the script; departures use the server clock
			return true
		}
		parts = append(parts, n+"="+valString(fd, v))
		return true
	})
	sort.Strings(parts)
	return strings.Join(parts, " ")
}

// StepRx: what one connection (slot, generation) received during one step.
type StepRx struct {
	Step, Slot, Gen int
	Msgs            []string // normalised, sorted within the step
	Types           []int32
}

// instanceTable learns session instances from join responses (in order of
// first appearance of their UUID) and translates ids <-> instances.
type instanceTable struct {
	uuidInst map[string]int
	instUUID map[int]string
	instID   map[int]string
	idInst   map[string]int // id string -> latest instance holding it
	n        int
}

func newInstanceTable() *instanceTable {
	return &instanceTable{uuidInst: map[string]int{}, instUUID: map[int]string{}, instID: map[int]string{}, idInst: map[string]int{}}
}

func (t *instanceTable) observe(rx Rx) {
	if jr, ok := rx.M.(*hagallpb.ParticipantJoinResponse); ok {
		if _, seen := t.uuidInst[jr.SessionUuid]; !seen {
			t.n++
			t.uuidInst[jr.SessionUuid] = t.n
			t.instID[t.n] = jr.SessionId
			t.instUUID[t.n] = jr.SessionUuid
		}
		t.idInst[jr.SessionId] = t.uuidInst[jr.SessionUuid]
	}
}

func (t *instanceTable) name(id string) string {
	if i, ok := t.idInst[id]; ok {
		return fmt.Sprintf("S%d", i)
	}
	return "S?" + id
}

// ---------------------------------------------------------------------------
// replaying a trace

type ReplayOpts struct {
	Keep func(ev TraceEvent) bool // nil = keep all
}

type ReplayResult struct {
	Rx     []StepRx
	Insts  *instanceTable
	Panics []string
	Ended  map[[2]int]bool
}

// replayTrace runs the events on d. Join requests are re-addressed to the
// id that the addressed session instance has in THIS run.
func replayTrace(d Driver, evs []TraceEvent, remap func(ev TraceEvent) (TraceEvent, bool)) ReplayResult {
	res := ReplayResult{Insts: newInstanceTable(), Ended: map[[2]int]bool{}}
	cur := map[int]int{}   // slot -> inbox cursor
	gen := map[int]int{}   // slot -> generation
	live := map[int]bool{} // slot connected
	flush := func(step int) {
		slots := make([]int, 0, len(live))
		for s := range live {
			slots = append(slots, s)
		}
		sort.Ints(slots)
		for _, slot := range slots {
			in := d.Inbox(slot)
			if cur[slot] >= len(in) {
				continue
			}
			sr := StepRx{Step: step, Slot: slot, Gen: gen[slot]}
			for _, rx := range in[cur[slot]:] {
				if rx.T == TSyncClock {
					continue
				}
				res.Insts.observe(rx)
				sr.Msgs = append(sr.Msgs, normMsg(rx, res.Insts.name))
				sr.Types = append(sr.Types, rx.T)
			}
			cur[slot] = len(in)
			if len(sr.Msgs) > 0 {
				sort.Sort(byMsg{&sr})
				res.Rx = append(res.Rx, sr)
			}
		}
	}
	lastStep := -1
	for _, ev0 := range evs {
		ev, keep := ev0, true
		if remap != nil {
			ev, keep = remap(ev0)
		}
		if !keep {
			continue
		}
		if ev.Step != lastStep && lastStep >= 0 {
			flush(lastStep)
		}
		lastStep = ev.Step
		switch ev.Kind {
		case EvConnect:
			d.Connect(ev.Slot)
			cur[ev.Slot] = 0
			gen[ev.Slot] = ev.Gen
			live[ev.Slot] = true
		case EvSend:
			b := ev.Bytes
			if ev.JoinInst >= 0 {
				var jr hagallpb.ParticipantJoinRequest
				if proto.Unmarshal(b, &jr) == nil {
					jr.SessionId = ""
					if ev.JoinInst > 0 {
						jr.SessionId = res.Insts.instID[ev.JoinInst]
						if jr.SessionId == "" {
							jr.SessionId = "vrfx-unknown-instance"
						}
					}
					b, _ = proto.Marshal(&jr)
				}
			}
			d.SendBytes(ev.Slot, b)
		case EvClose:
			d.Close(ev.Slot)
		case EvAdvance:
			d.Advance(ev.Dur)
		}
	}
	if lastStep >= 0 {
		flush(lastStep)
	}
	res.Panics = d.Panics()
	return res
}

type byMsg struct{ s *StepRx }

func (b byMsg) Len() int           { return len(b.s.Msgs) }
func (b byMsg) Less(i, j int) bool { return b.s.Msgs[i] < b.s.Msgs[j] }
func (b byMsg) Swap(i, j int) {
	b.s.Msgs[i], b.s.Msgs[j] = b.s.Msgs[j], b.s.Msgs[i]
	b.s.Types[i], b.s.Types[j] = b.s.Types[j], b.s.Types[i]
}

// dumpStore renders the state of every listed session instance of a store
// (read through exported API), in instance order, for comparison across runs.
func dumpStore(store *models.SessionStore, insts *instanceTable, cfg Config) []string {
	var out []string
	for i := 1; i <= insts.n; i++ {
		ss, ok := store.GetByGlobalID(insts.instID[i])
		if !ok || ss.SessionUUID != insts.instUUID[i] {
			continue // this instance has ended (its id may have been reused)
		}
		ex := &Exec{Cfg: cfg}
		out = append(out, fmt.Sprintf("S%d: %s", i, ex.renderSession(ss)))
	}
	return out
}

// renderSession renders a server session deterministically.
func (e *Exec) renderSession(ss *models.Session) string {
	var parts []string
	for _, p := range ss.GetParticipants() {
		parts = append(parts, fmt.Sprintf("p%d", p.ID))
	}
	for _, en := range ss.Entities() {
		p := en.Pose()
		parts = append(parts, fmt.Sprintf("e%d(owner=%d persist=%v flag=%d pose=%v)", en.ID, en.ParticipantID, en.Persist, en.Flag, p))
	}
	ecs := ss.GetEntityComponents()
	tids := map[uint32]bool{}
	for _, c := range ecs.ListAll() {
		parts = append(parts, fmt.Sprintf("c(%d,%d)=%x", c.EntityComponentTypeId, c.EntityId, c.Data))
		tids[c.EntityComponentTypeId] = true
	}
	for tid := uint32(1); tid <= 16; tid++ {
		if n, err := ecs.GetTypeName(tid); err == nil {
			parts = append(parts, fmt.Sprintf("type%d=%q", tid, n))
			ecs.Notify(tid, func(p []uint32) {
				q := append([]uint32{}, p...)
				sort.Slice(q, func(i, j int) bool { return q[i] < q[j] })
				parts = append(parts, fmt.Sprintf("subs%d=%v", tid, q))
			})
		}
	}
	sort.Strings(parts)
	return strings.Join(parts, " ")
}

// unused interface assertions keep the Driver contract visible here
var _ = (*hws.RealtimeHandler)(nil)
var _ chan ncsclient.ReceiptPayload

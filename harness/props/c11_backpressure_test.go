package props

import (
	"fmt"
	"os"
	"testing"
	"time"

	"github.com/aukilabs/hagall-common/messages/hagallpb"
	"golang.org/x/net/websocket"
	"google.golang.org/protobuf/proto"
	"google.golang.org/protobuf/types/known/timestamppb"
	"pgregory.net/rapid"
)

// C11 under back-pressure: a member stops reading while the owner keeps
// moving many entities over several frames; more than 512 relays queue up for
// the slow reader. After it has caught up and a few frames have passed, the
// last pose every observer holds for each entity must be the most recent one
// the owner sent, and the values each observer saw per entity must be
// strictly increasing (never reordered or repeated).

type poseBpCase struct {
	Entities int `json:"entities"`
	Frames   int `json:"frames"`
	PerFrame int `json:"updates_per_entity_per_frame"`
}

func runPoseBackpressure(t *testing.T, c poseBpCase) (viol string, queued int) {
	inconclusive := false
	defer func() {
		if r := recover(); r != nil && viol == "" {
			viol = fmt.Sprintf("goroutines stay blocked forever: %v", r)
		}
	}()
	// Real time, real threads: with this much back-pressure the frame worker and the
	// receiver block on a mutex of the dispatcher, which a synctest bubble cannot see as blocked.
	func() {
		frame := 5 * time.Millisecond
		w := NewWWorld(Config{Modules: []string{}, FrameMs: 5, Conns: 3}, WOpts{Real: true})
		defer w.shutdownReal()
		ts := func() *timestamppb.Timestamp { return &timestamppb.Timestamp{Seconds: 1700000000} }
		const O, R, B = 0, 1, 2
		var sid string
		for _, slot := range []int{O, R, B} {
			w.Connect(slot)
			w.Send(slot, &hagallpb.ParticipantJoinRequest{Type: TJoinReq, Timestamp: ts(), RequestId: 1, SessionId: sid})
			rx, ok := waitInbox(w.conns[slot], 1, 10*time.Second, TJoinResp)
			if !ok {
				inconclusive = true
				return
			}
			sid = rx.M.(*hagallpb.ParticipantJoinResponse).SessionId
		}
		var eids []uint32
		for i := 0; i < c.Entities; i++ {
			w.Send(O, &hagallpb.EntityAddRequest{Type: TEntityAddReq, Timestamp: ts(), RequestId: uint32(10 + i)})
			if rx, ok := waitInbox(w.conns[O], uint32(10+i), 10*time.Second, TEntityAddResp); ok {
				eids = append(eids, rx.M.(*hagallpb.EntityAddResponse).EntityId)
			}
		}
		if len(eids) != c.Entities {
			inconclusive = true
			return
		}
		w.Stall(R)
		last := float32(0)
		done := make(chan struct{})
		go func() {
			defer close(done)
			ws := w.conns[O].ws
			for f := 0; f < c.Frames; f++ {
				for u := 0; u < c.PerFrame; u++ {
					last++
					for _, eid := range eids {
						b, _ := proto.Marshal(&hagallpb.EntityUpdatePose{Type: TPose, Timestamp: ts(), EntityId: eid, Pose: &hagallpb.Pose{Px: last}})
						if websocket.Message.Send(ws, b) != nil {
							return
						}
					}
				}
				time.Sleep(frame)
			}
		}()
		// let the frames elapse while the slow reader is not reading
		time.Sleep(time.Duration(c.Frames+2) * frame)
		w.Unstall(R)
		select {
		case <-done:
		case <-time.After(30 * time.Second):
			inconclusive = true
			return
		}
		// wait (bounded) until both observers hold the most recent pose of every entity - not for a
		// fixed time: the machine may be busy - then a little longer for anything that should NOT come
		caughtUp := func() bool {
			for _, obs := range []int{R, B} {
				seen := map[uint32]float32{}
				for _, rx := range w.Inbox(obs) {
					if pb, ok := rx.M.(*hagallpb.EntityUpdatePoseBroadcast); ok {
						seen[pb.EntityId] = pb.Pose.GetPx()
					}
				}
				for _, eid := range eids {
					if seen[eid] != last {
						return false
					}
				}
			}
			return true
		}
		deadline := time.Now().Add(30 * time.Second)
		for !caughtUp() && time.Now().Before(deadline) {
			time.Sleep(5 * time.Millisecond)
		}
		if !caughtUp() {
			// not relayed - or is the machine just slow? the owner's connection must answer a ping promptly
			t0 := time.Now()
			w.Send(O, &hagallpb.Request{Type: TPingReq, Timestamp: ts(), RequestId: 99999})
			if _, ok := waitInbox(w.conns[O], 99999, 10*time.Second, TPingResp); !ok || time.Since(t0) > time.Second {
				inconclusive = true
				return
			}
		}
		time.Sleep(60 * time.Millisecond)
		if p := w.Panics(); len(p) > 0 {
			viol = "server code panicked: " + p[0]
			return
		}
		for _, obs := range []int{R, B} {
			seen := map[uint32]float32{}
			n := 0
			for _, rx := range w.Inbox(obs) {
				if pb, ok := rx.M.(*hagallpb.EntityUpdatePoseBroadcast); ok {
					n++
					v := pb.Pose.GetPx()
					if prev, ok := seen[pb.EntityId]; ok && v <= prev {
						viol = fmt.Sprintf("observer c%d saw the pose of entity %d go from %v to %v (reordered or repeated)", obs, pb.EntityId, prev, v)
						return
					}
					seen[pb.EntityId] = v
				}
			}
			if obs == R {
				queued = n
			}
			for _, eid := range eids {
				if seen[eid] != last {
					viol = fmt.Sprintf("observer c%d holds pose %v for entity %d, the most recent pose sent is %v (not relayed within a few frames)", obs, seen[eid], eid, last)
					return
				}
			}
		}
	}()
	if inconclusive {
		return "", -1
	}
	return
}

// shutdownReal ends a real-time world.
func (w *WWorld) shutdownReal() {
	for _, c := range w.all {
		c.mu.Lock()
		if c.stalled {
			c.stalled = false
			close(c.resume)
		}
		c.mu.Unlock()
		c.ws.Close()
	}
	// let every connection leave through its normal path before the server context is cancelled:
	// a cancelled context ends the connection loops WITHOUT the disconnect handling, the frame
	// callbacks stay registered and the frame worker then writes to a closed dispatcher queue
	// (a crash on server shutdown - not a client behaviour, and not what this test is about)
	running := func() bool {
		for _, c := range w.all {
			c.mu.Lock()
			r := c.entered && !c.returned
			c.mu.Unlock()
			if r {
				return true
			}
		}
		return false
	}
	for until := time.Now().Add(20 * time.Second); time.Now().Before(until) && running(); {
		time.Sleep(5 * time.Millisecond)
	}
	w.cancel()
	w.srv.Close()
	w.ln.Close()
}

func TestC11Backpressure(t *testing.T) {
	col := NewCollector("C11", "Wbp", "wire driver on real threads and real time (frame 5 ms): an owner with 1-400 entities sends 1-3 pose updates per entity per frame for 2-6 frames while another member has stopped reading (so that more than 512 pose relays queue up for it) and a third member reads normally; the slow reader then catches up and four more frames pass; every observer must have seen strictly increasing values per entity and must end with the most recent pose of every entity; non-trivial = distinct case in which more than 512 pose relays were delivered to the slow reader")
	t.Cleanup(col.Write)
	if rp := os.Getenv("VERIF_REPLAY"); rp != "" {
		var c poseBpCase
		if err := readJSON(rp, &c); err != nil || c.Entities == 0 {
			t.Skipf("replay file not usable: %v", err)
		}
		if v, _ := runPoseBackpressure(t, c); v != "" {
			t.Fatalf("replay violates C11: %s", v)
		}
		return
	}
	rapid.Check(t, func(rt *rapid.T) {
		c := poseBpCase{Entities: pick(rt, "entities", []int{1, 20, 150, 300, 400}), Frames: 2 + uni(rt, "frames", 5), PerFrame: 1 + uni(rt, "per_frame", 3)}
		v, queued := runPoseBackpressure(t, c)
		if queued < 0 {
			rt.Skip("machine too slow: inconclusive")
		}
		col.Case(fmt.Sprintf("%+v", c), v == "" && queued > 512, map[string]int{"more_than_512_relays": b2i(queued > 512)}, func() any { return c })
		if v != "" {
			col.Violations++
			saveCase("C11", c)
			rt.Fatalf("C11 violated: %s (case %+v)", v, c)
		}
	})
}

package props

import (
	"bytes"
	"fmt"
	"math"
	"runtime"
	"runtime/pprof"
	"sort"
	"strings"
	"testing/synctest"

	"github.com/aukilabs/hagall/models"
	"github.com/aukilabs/hagall/modules/odal"
	"github.com/aukilabs/hagall/modules/vikja"
	"github.com/prometheus/client_golang/prometheus"
	"github.com/prometheus/client_golang/prometheus/collectors"
)

func init() {
	// The default registry also holds the Go runtime and process collectors;
	// gathering them after every step would dominate the run time. They are
	// not part of hagall.
	prometheus.Unregister(collectors.NewGoCollector())
	prometheus.Unregister(collectors.NewProcessCollector(collectors.ProcessCollectorOpts{}))
}

func float32frombits(b uint32) float32 { return math.Float32frombits(b) }

// sessionGauge reads the sum of the session_count gauge over all labels.
func sessionGauge() float64 {
	mfs, err := prometheus.DefaultGatherer.Gather()
	if err != nil {
		return math.NaN()
	}
	var sum float64
	for _, mf := range mfs {
		if mf.GetName() == "session_count" {
			for _, m := range mf.GetMetric() {
				sum += m.GetGauge().GetValue()
			}
		}
	}
	return sum
}

func gaugeValue(name string) float64 {
	mfs, err := prometheus.DefaultGatherer.Gather()
	if err != nil {
		return math.NaN()
	}
	var sum float64
	for _, mf := range mfs {
		if mf.GetName() == name {
			for _, m := range mf.GetMetric() {
				sum += m.GetGauge().GetValue()
			}
		}
	}
	return sum
}

// countGoroutines counts goroutines whose stack mentions the given function.
func countGoroutines(fn string) int {
	var buf bytes.Buffer
	pprof.Lookup("goroutine").WriteTo(&buf, 2)
	n := 0
	for _, g := range strings.Split(buf.String(), "\n\n") {
		if strings.Contains(g, fn) {
			n++
		}
	}
	return n
}

// checkServerState compares the server's own state, read through exported
// API only, with the reference model: registry, sessions, members, entities,
// components, subscriptions, type registry, module state.
func (e *Exec) checkServerState(actor *MConn) {
	store := e.D.Store()
	if store == nil {
		return
	}
	for _, s := range e.M.Live {
		tags := "C01" + e.stepTagSuffix()
		if actor != nil && s != e.actorBefore && s != e.actorAfter {
			tags += ",C03"
		}
		ss, ok := store.GetByGlobalID(s.ID)
		if !ok {
			e.fail("C07,"+tags, "session %q has %d member(s) but its id does not resolve", s.ID, len(s.Members))
			return
		}
		if ss.SessionUUID != s.UUID {
			e.fail("C07,"+tags, "id %q resolves to a session with UUID %q, expected %q", s.ID, ss.SessionUUID, s.UUID)
			return
		}
		if d := e.diffSession(ss, s); len(d) > 0 {
			dt, dm := joinDiffs(d)
			e.fail(tags+","+dt, "server state of session %q differs from the reference: %s", s.ID, dm)
			return
		}
	}
	for _, old := range e.M.Ended {
		if e.M.liveByID(old.ID) != nil {
			continue
		}
		if _, ok := store.GetByGlobalID(old.ID); ok {
			e.fail("C07"+e.stepTagSuffix(), "session %q has ended (no members) but its id still resolves", old.ID)
			return
		}
	}
	if e.Registry {
		if g := sessionGauge() - e.Gauge0; g != float64(len(e.M.Live)) {
			e.fail("C07", "session gauge moved by %v since the case started, %d session(s) are live", g, len(e.M.Live))
		}
		// The frame workers are counted only after a step that let time pass: between
		// other steps nothing waits, so a session can be created and ended before
		// its worker goroutine was ever scheduled (the end-of-case leak check then
		// shows whether such a worker still stops).
		if !e.timePassed {
			return
		}
		e.timePassed = false
		synctest.Wait()
		if n := runtime.NumGoroutine() - e.G0; n != len(e.M.Live) {
			// confirm with the goroutine profile (slower, but names the workers)
			if w := countGoroutines("models.(*Session).StartDispatchFrames"); w != len(e.M.Live) {
				e.fail("C07", "%d frame worker(s) running, %d session(s) are live", w, len(e.M.Live))
			}
		}
	}
}

func (e *Exec) diffSession(ss *models.Session, s *MSession) []Diff {
	var out []Diff
	tag := ""
	add := func(f string, a ...any) { out = append(out, Diff{tag, fmt.Sprintf(f, a...)}) }
	tag = "C06,C07"

	got := map[uint32]bool{}
	for _, p := range ss.GetParticipants() {
		got[p.ID] = true
		if _, ok := s.Members[p.ID]; !ok {
			add("server has participant %d who is not a member", p.ID)
		}
	}
	for p := range s.Members {
		if !got[p] {
			add("member %d missing on the server", p)
		}
	}
	if ss.ParticipantCount() != len(got) {
		add("participant count %d but %d participants listed", ss.ParticipantCount(), len(got))
	}
	// every member's connection has exactly one per-frame callback registered (it flushes the
	// member's coalesced pose and component updates); read through an overlay accessor
	// (fewer callbacks than members: a member's updates are never relayed - C11, C13, and the
	// others' views go stale; more: a connection that left, or moved to another session, still has
	// its updates released by this session's frames - C03, C06, a ghost in the sense of C08)
	tag = "C11,C13,C09,C01,C02,C03,C08"
	if n := models.VerifFrameHandlerCount(ss); n > len(got) {
		tag = "C03,C06,C08,C09,C11"
	}
	if n := models.VerifFrameHandlerCount(ss); n != len(got) {
		add("session has %d members but %d per-frame callbacks are registered (a member without one never gets its pose/component updates relayed)", len(got), n)
	}
	tag = "C05,C06,C11"
	ents := map[uint32]bool{}
	for _, en := range ss.Entities() {
		ents[en.ID] = true
		me, ok := s.Ents[en.ID]
		if !ok {
			add("server has entity %d which should not exist", en.ID)
			continue
		}
		p := en.Pose()
		pb := [7]uint32{math.Float32bits(p.PX), math.Float32bits(p.PY), math.Float32bits(p.PZ), math.Float32bits(p.RX), math.Float32bits(p.RY), math.Float32bits(p.RZ), math.Float32bits(p.RW)}
		if en.ParticipantID != me.Owner || en.Persist != me.Persist || int32(en.Flag) != me.Flag || pb != me.Pose {
			add("entity %d: server owner=%d persist=%v flag=%d pose=%08x, reference owner=%d persist=%v flag=%d pose=%08x", en.ID, en.ParticipantID, en.Persist, en.Flag, pb, me.Owner, me.Persist, me.Flag, me.Pose)
		}
		if e2, ok := ss.EntityByID(en.ID); !ok || e2 != en {
			add("entity %d listed but not resolvable by id", en.ID)
		}
	}
	for id := range s.Ents {
		if !ents[id] {
			add("entity %d missing on the server", id)
		}
	}
	tag = "C12,C06"
	ecs := ss.GetEntityComponents()
	comps := map[CompKey][]byte{}
	for _, c := range ecs.ListAll() {
		comps[CompKey{c.EntityComponentTypeId, c.EntityId}] = c.Data
	}
	if d := diffComps(comps, s.Comps, 0); d != "" {
		add("components: %s", d)
	}
	tag = "C12,C10"
	for name, id := range s.TypeByName {
		if g, err := ecs.GetTypeID(name); err != nil || g != id {
			add("type name %q resolves to %d (%v), expected %d", name, g, err, id)
		}
		if g, err := ecs.GetTypeName(id); err != nil || g != name {
			add("type id %d resolves to %q (%v), expected %q", id, g, err, name)
		}
	}
	tag = "C13,C06"
	tids := append([]uint32{}, s.TypeOrder...)
	for _, tid := range tids {
		var subs []uint32
		called := false
		ecs.Notify(tid, func(p []uint32) { called = true; subs = append(subs, p...) })
		want := make([]uint32, 0)
		for p := range s.Subs[tid] {
			want = append(want, p)
		}
		sort.Slice(want, func(i, j int) bool { return want[i] < want[j] })
		sort.Slice(subs, func(i, j int) bool { return subs[i] < subs[j] })
		if len(want) == 0 && called {
			add("type %d has no subscriber but the server would notify %v", tid, subs)
		} else if fmt.Sprint(want) != fmt.Sprint(subs) && !(len(want) == 0 && len(subs) == 0) {
			add("subscribers of type %d: server %v, reference %v", tid, subs, want)
		}
	}
	tag = "C16,C06"
	if e.Cfg.has("vikja") {
		if st, ok := ss.ModuleState("vikja"); ok {
			gotA := map[string]MAction{}
			for _, a := range st.(*vikja.State).EntityActions() {
				gotA[fmt.Sprintf("%d/%s", a.EntityId, a.Name)] = MAction{Sec: a.GetTimestamp().GetSeconds(), Nano: a.GetTimestamp().GetNanos(), Data: a.Data}
			}
			n := 0
			for eid, as := range s.Actions {
				for name, a := range as {
					n++
					g, ok := gotA[fmt.Sprintf("%d/%s", eid, name)]
					if !ok {
						add("action (%d,%q) missing on the server", eid, name)
					} else if g.Sec != a.Sec || g.Nano != a.Nano || !bytes.Equal(g.Data, a.Data) {
						add("action (%d,%q): server ts=%d.%09d, reference ts=%d.%09d", eid, name, g.Sec, g.Nano, a.Sec, a.Nano)
					}
				}
			}
			if n != len(gotA) {
				add("server holds %d entity actions, reference %d", len(gotA), n)
			}
		} else if len(s.Actions) > 0 {
			add("server has no vikja state but the reference holds actions")
		}
	}
	if e.Cfg.has("odal") {
		if st, ok := ss.ModuleState("odal"); ok {
			gotA := map[uint32]MAsset{}
			for _, a := range st.(*odal.State).AssetInstances() {
				gotA[a.EntityId] = MAsset{Inst: a.Id, AssetID: a.AssetId, Pid: a.ParticipantId}
			}
			for eid, a := range s.Assets {
				if g, ok := gotA[eid]; !ok {
					add("asset of entity %d missing on the server", eid)
				} else if g != a {
					add("asset of entity %d: server %+v, reference %+v", eid, g, a)
				}
			}
			for eid := range gotA {
				if _, ok := s.Assets[eid]; !ok {
					add("server holds an asset for entity %d which should have none", eid)
				}
			}
		} else if len(s.Assets) > 0 {
			add("server has no odal state but the reference holds assets")
		}
	}
	sortDiffs(out)
	return out
}

func (e *Exec) liveSig() string {
	var b strings.Builder
	for _, s := range e.M.Live {
		fmt.Fprintf(&b, "%d,", s.Seq)
	}
	return b.String()
}

package props

import (
	"fmt"
	"testing"
	"testing/synctest"

	"github.com/aukilabs/hagall-common/messages/hagallpb"
	"google.golang.org/protobuf/proto"
	"google.golang.org/protobuf/types/known/timestamppb"
)

// Byte-level fuzz target (thorough tier; saved crashers are replayed in the
// quick tier). One message: type number, then `fields` verbatim as the
// message's fields >= 3 (so the fuzzer controls every field of every core and
// module message). It is sent by a joined member that owns an entity, in a
// session with a witness, a registered and subscribed component type and all
// modules; a second session serves as bystander. State is rebuilt at the top
// of every iteration. Oracle: no panic; the witness's replica (snapshot +
// broadcasts, applied as a client would) equals the server's state; the
// bystander session is untouched; the sender is either still a member or gone
// through the normal path.
func FuzzHandleMessage(f *testing.F) {
	seeds := [][]byte{
		{}, {0x18, 0x01}, {0x18, 0x01, 0x22, 0x00}, {0x22, 0x05, 0x0d, 0x00, 0x00, 0xc0, 0x7f},
		{0x1a, 0x02, 0x0d, 0x01}, {0x1a, 0x02, 0xff, 0xfe}, {0x18, 0x01, 0x20, 0x01, 0x2a, 0x01, 0x00},
		{0x1a, 0x0c, 0x0a, 0x0a, 0x0d, 0x00, 0x00, 0x80, 0x7f, 0x15, 0x00, 0x00, 0x80, 0xff},
		{0x22, 0x0e, 0x0a, 0x05, 0x0d, 0xff, 0xff, 0x7f, 0x7f, 0x12, 0x05, 0x0d, 0x00, 0x00, 0x80, 0x3f},
	}
	for _, t := range []int32{3, 8, 11, 14, 16, 18, 20, 22, 24, 27, 30, 32, 34, 36, 38, 39, 40, 42, 101, 201, 300, 301, 303, 305, 6, 99} {
		for _, s := range seeds {
			f.Add(t, s)
		}
	}
	f.Fuzz(func(t *testing.T, msgType int32, fields []byte) {
		if len(fields) > 4096 {
			t.Skip()
		}
		var problem string
		synctest.Test(t, func(t *testing.T) {
			cfg := Config{Modules: allModules, FrameMs: 15, Conns: 3, ReceiptCap: 4}
			w := NewHWorld(cfg)
			defer w.Shutdown()
			ts := &timestamppb.Timestamp{Seconds: 1700000000}
			join := func(slot int, sid string) string {
				w.Connect(slot)
				w.Send(slot, &hagallpb.ParticipantJoinRequest{Type: TJoinReq, Timestamp: ts, RequestId: 1, SessionId: sid})
				for _, rx := range w.Inbox(slot) {
					if jr, ok := rx.M.(*hagallpb.ParticipantJoinResponse); ok {
						return jr.SessionId
					}
				}
				return ""
			}
			sid := join(0, "") // the sender
			join(1, sid)       // the witness
			other := join(2, "")
			w.Send(0, &hagallpb.EntityAddRequest{Type: TEntityAddReq, Timestamp: ts, RequestId: 2, Pose: &hagallpb.Pose{Px: 1}})
			w.Send(1, &hagallpb.EntityAddRequest{Type: TEntityAddReq, Timestamp: ts, RequestId: 2, Persist: true})
			w.Send(0, &hagallpb.EntityComponentTypeAddRequest{Type: TTypeAddReq, Timestamp: ts, RequestId: 3, EntityComponentTypeName: "t"})
			w.Send(1, &hagallpb.EntityComponentTypeSubscribeRequest{Type: TSubReq, Timestamp: ts, RequestId: 3, EntityComponentTypeId: 1})
			w.Send(0, &hagallpb.EntityComponentAddRequest{Type: TCompAddReq, Timestamp: ts, RequestId: 4, EntityComponentTypeId: 1, EntityId: 1, Data: []byte{1}})
			w.Send(2, &hagallpb.EntityAddRequest{Type: TEntityAddReq, Timestamp: ts, RequestId: 2})
			insts := newInstanceTable()
			for _, slot := range []int{0, 2} {
				for _, rx := range w.Inbox(slot) {
					insts.observe(rx)
				}
			}
			before := dumpStore(w.Store(), insts, cfg)
			// the witness's replica so far
			parts, ents := map[uint32]bool{}, map[uint32]bool{}
			apply := func(rx Rx) {
				switch m := rx.M.(type) {
				case *hagallpb.SessionState:
					for _, p := range m.Participants {
						parts[p.Id] = true
					}
					for _, e := range m.Entities {
						ents[e.Id] = true
					}
				case *hagallpb.ParticipantJoinBroadcast:
					parts[m.ParticipantId] = true
				case *hagallpb.ParticipantLeaveBroadcast:
					delete(parts, m.ParticipantId)
				case *hagallpb.EntityAddBroadcast:
					ents[m.Entity.GetId()] = true
				case *hagallpb.EntityDeleteBroadcast:
					delete(ents, m.EntityId)
				case *hagallpb.EntityAddResponse:
					ents[m.EntityId] = true
				}
			}
			// the fuzzed message
			env, _ := proto.Marshal(&hagallpb.Msg{Type: hagallpb.MsgType(msgType), Timestamp: ts})
			w.SendBytes(0, append(env, fields...))
			w.Advance(w.Frame())
			w.Advance(w.Frame())
			if p := w.Panics(); len(p) > 0 {
				problem = "server code panicked: " + p[0]
				return
			}
			for _, rx := range w.Inbox(1) {
				apply(rx)
			}
			ss, ok := w.Store().GetByGlobalID(sid)
			if !ok {
				problem = "the session with the witness no longer resolves"
				return
			}
			srvParts, srvEnts := map[uint32]bool{}, map[uint32]bool{}
			for _, p := range ss.GetParticipants() {
				srvParts[p.ID] = true
			}
			for _, e := range ss.Entities() {
				srvEnts[e.ID] = true
			}
			if d := setDiff2(parts, srvParts); d != "" {
				problem = "witness replica and server disagree on the participants: " + d
				return
			}
			if d := setDiff2(ents, srvEnts); d != "" {
				problem = "witness replica and server disagree on the entities: " + d
				return
			}
			if !srvParts[2] {
				problem = "the witness is no longer a participant"
				return
			}
			member := !w.Ended(0) && w.RH(0) != nil && w.RH(0).CurrentSession() == ss
			if srvParts[1] != member {
				problem = fmt.Sprintf("sender ended=%v, believes to be a member=%v, but listed in the session=%v (ghost, or removed while connected)", w.Ended(0), member, srvParts[1])
				return
			}
			after := dumpStore(w.Store(), insts, cfg)
			for i := range before {
				if len(after) <= i {
					break
				}
				if before[i] != after[i] && !containsSession(before[i], "S1:") && insts.instID[2] == other {
					problem = "a session the sender is not in changed:\n  before " + before[i] + "\n  after  " + after[i]
					return
				}
			}
			// the witness is still served
			n := len(w.Inbox(1))
			w.Send(1, &hagallpb.Request{Type: TPingReq, Timestamp: ts, RequestId: 9})
			okPing := false
			for _, rx := range w.Inbox(1)[n:] {
				if rx.T == TPingResp && rx.ReqID() == 9 {
					okPing = true
				}
			}
			if !okPing {
				problem = "the witness no longer gets its ping answered"
			}
		})
		if problem != "" {
			t.Fatalf("type=%d fields=%x: %s", msgType, fields, problem)
		}
	})
}

func containsSession(line, prefix string) bool {
	return len(line) >= len(prefix) && line[:len(prefix)] == prefix
}

func setDiff2(view, srv map[uint32]bool) string {
	out := ""
	for k := range srv {
		if !view[k] {
			out += fmt.Sprintf(" %d missing in the replica;", k)
		}
	}
	for k := range view {
		if !srv[k] {
			out += fmt.Sprintf(" %d only in the replica;", k)
		}
	}
	return out
}

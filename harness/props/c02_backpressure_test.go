package props

import (
	"fmt"
	"os"
	"testing"
	"testing/synctest"
	"time"

	"github.com/aukilabs/hagall-common/messages/hagallpb"
	"golang.org/x/net/websocket"
	"google.golang.org/protobuf/proto"
	"google.golang.org/protobuf/types/known/timestamppb"
	"pgregory.net/rapid"
)

// C02 / C04 under back-pressure: one member reads slowly (stops reading for a
// while, then catches up) while two others pipeline requests. More than 512
// relays to the slow reader fill its send queue, so the senders' loops are
// held up until it reads again. When everything has drained: every recipient
// got every relay of every sender exactly once and in that sender's order,
// and every request with an id was answered exactly once, in order.

type bpCase struct {
	M      [2]int `json:"requests_per_sender"`
	Kind   [2]int `json:"kind"`   // 0 custom messages, 1 entity adds, 2 alternating
	Resume int    `json:"resume"` // 0: slow reader resumes when the senders are held up or done; 1: after 10 ms of fake time
	Late   bool   `json:"observer_joins_late"`
}

func runBackpressure(t *testing.T, c bpCase, replicaOnly bool) (viol string, blocked bool) {
	defer func() {
		if r := recover(); r != nil && viol == "" {
			viol = fmt.Sprintf("goroutines stay blocked forever: %v", r)
		}
	}()
	synctest.Test(t, func(t *testing.T) {
		w := NewWWorld(Config{Modules: []string{}, FrameMs: 15, Conns: 4}, WOpts{})
		defer w.Shutdown()
		ts := func() *timestamppb.Timestamp { return &timestamppb.Timestamp{Seconds: 1700000000} }
		const R, S1, S2, O = 0, 1, 2, 3
		pid := map[int]uint32{}
		join := func(slot int, sid string) string {
			w.Connect(slot)
			w.Send(slot, &hagallpb.ParticipantJoinRequest{Type: TJoinReq, Timestamp: ts(), RequestId: 1, SessionId: sid})
			for _, rx := range w.Inbox(slot) {
				if jr, ok := rx.M.(*hagallpb.ParticipantJoinResponse); ok {
					pid[slot] = jr.ParticipantId
					return jr.SessionId
				}
			}
			return ""
		}
		sid := join(R, "")
		join(S1, sid)
		join(S2, sid)
		if !c.Late {
			join(O, sid)
		} else {
			w.Connect(O)
		}
		w.Stall(R)
		done := make(chan int, 2)
		for i, slot := range []int{S1, S2} {
			go func(i, slot int) {
				defer func() { done <- i }()
				ws := w.conns[slot].ws
				for k := 0; k < c.M[i]; k++ {
					var p proto.Message
					custom := c.Kind[i] == 0 || (c.Kind[i] == 2 && k%2 == 0)
					if custom {
						p = &hagallpb.CustomMessage{Type: TCustom, Timestamp: ts(), Body: []byte{byte(i), byte(k >> 8), byte(k)}}
					} else {
						p = &hagallpb.EntityAddRequest{Type: TEntityAddReq, Timestamp: ts(), RequestId: uint32(1000 + k), Pose: &hagallpb.Pose{Px: float32(k)}}
					}
					b, _ := proto.Marshal(p)
					if err := websocket.Message.Send(ws, b); err != nil {
						return
					}
				}
			}(i, slot)
		}
		if c.Resume == 1 {
			time.Sleep(10 * time.Millisecond)
		}
		synctest.Wait()
		blocked = len(done) < 2
		if c.Late {
			// a member that joins while the session is held up must still be served after the drain
			b, _ := proto.Marshal(&hagallpb.ParticipantJoinRequest{Type: TJoinReq, Timestamp: ts(), RequestId: 1, SessionId: sid})
			w.SendNoWait(O, b)
			synctest.Wait()
		}
		w.Unstall(R)
		<-done
		<-done
		synctest.Wait()
		if p := w.Panics(); len(p) > 0 {
			viol = "server code panicked: " + p[0]
			return
		}
		// expected per sender: the sequence of its relays
		check := func(obs int, name string, fromStart bool) {
			if viol != "" {
				return
			}
			for i, slot := range []int{S1, S2} {
				if slot == obs {
					continue
				}
				k := 0
				for _, rx := range w.Inbox(obs) {
					want := -1
					switch m := rx.M.(type) {
					case *hagallpb.CustomMessageBroadcast:
						if m.ParticipantId == pid[slot] && len(m.Body) == 3 {
							want = int(m.Body[1])<<8 | int(m.Body[2])
						}
					case *hagallpb.EntityAddBroadcast:
						if m.Entity != nil && m.Entity.ParticipantId == pid[slot] {
							want = int(m.Entity.Pose.GetPx())
						}
					}
					if want < 0 {
						continue
					}
					if !fromStart && k == 0 {
						k = want // a late joiner starts somewhere in the middle
					}
					// kinds alternate, so both streams carry the request index k
					if want != k {
						viol = fmt.Sprintf("%s receives the relays of sender %d out of order or not exactly once: relay #%d carries request #%d", name, i+1, k, want)
						return
					}
					k++
				}
				if fromStart && k != c.M[i] {
					viol = fmt.Sprintf("%s received %d of the %d relays of sender %d", name, k, c.M[i], i+1)
					return
				}
				if !fromStart && k > c.M[i] {
					viol = fmt.Sprintf("%s received more relays of sender %d than it sent", name, i+1)
					return
				}
			}
		}
		// C01: what each member can reconstruct (entity adds received + own accepted adds) equals
		// the server's entity set once everything has drained
		if ss, ok := w.Store().GetByGlobalID(sid); ok {
			srv := map[uint32]bool{}
			for _, e := range ss.Entities() {
				srv[e.ID] = true
			}
			for _, obs := range []int{R, O, S1, S2} {
				if obs == O && c.Late {
					continue
				}
				view := map[uint32]bool{}
				for _, rx := range w.Inbox(obs) {
					switch m := rx.M.(type) {
					case *hagallpb.EntityAddBroadcast:
						view[m.Entity.GetId()] = true
					case *hagallpb.EntityAddResponse:
						view[m.EntityId] = true
					}
				}
				if d := setDiff2(view, srv); d != "" && viol == "" {
					viol = fmt.Sprintf("after the drain connection %d's replica and the server disagree on the entities:%s", obs, d)
				}
			}
		} else if viol == "" {
			viol = "the session no longer resolves"
		}
		if !replicaOnly {
			check(R, "the slow reader", true)
			check(O, "the observer", !c.Late)
			check(S1, "sender 1", true)
			check(S2, "sender 2", true)
		}
		// every entity add answered exactly once, in order
		for i, slot := range []int{S1, S2} {
			if replicaOnly {
				break
			}
			next := 0
			for _, rx := range w.Inbox(slot) {
				if rx.T == TEntityAddResp {
					for !(c.Kind[i] == 1 || (c.Kind[i] == 2 && next%2 == 1)) {
						next++
					}
					if int(rx.ReqID()) != 1000+next {
						viol = fmt.Sprintf("sender %d: answer for request %d arrives where the answer for request %d is due (answered exactly once, in order)", i+1, rx.ReqID(), 1000+next)
						return
					}
					next++
				}
			}
			expected := 0
			for k := 0; k < c.M[i]; k++ {
				if c.Kind[i] == 1 || (c.Kind[i] == 2 && k%2 == 1) {
					expected++
				}
			}
			got := 0
			for _, rx := range w.Inbox(slot) {
				if rx.T == TEntityAddResp {
					got++
				}
			}
			if got != expected && viol == "" {
				viol = fmt.Sprintf("sender %d got %d answers to %d entity add requests", i+1, got, expected)
				return
			}
		}
		for _, s := range []int{R, S1, S2, O} {
			w.Close(s)
		}
		if l := w.Leaks(); len(l) > 0 && viol == "" {
			viol = fmt.Sprintf("after every client has gone: %v", l)
		}
	})
	return
}

func TestC02Backpressure(t *testing.T) { backpressureTest(t, "C02") }
func TestC04Backpressure(t *testing.T) { backpressureTest(t, "C04") }
func TestC01Backpressure(t *testing.T) { backpressureTest(t, "C01") }

func backpressureTest(t *testing.T, prop string) {
	col := NewCollector(prop, "Wbp", "wire driver: a session of 3-4 members; one stops reading, two others each pipeline 1-900 requests (custom messages, entity adds, or alternating) from their own goroutines, so that more than 512 relays queue up for the slow reader and the senders' connection loops are held up; the slow reader then resumes; at quiescence every member's replica of the entity set must equal the server's (C01), every recipient must hold every relay of each sender exactly once and in that sender's request order, every entity add must be answered exactly once and in order, nothing may be left behind; non-trivial = distinct case in which at least one sender was actually held up by back-pressure")
	t.Cleanup(col.Write)
	if rp := os.Getenv("VERIF_REPLAY"); rp != "" {
		var c bpCase
		if err := readJSON(rp, &c); err != nil || c.M[0]+c.M[1] == 0 {
			t.Skipf("replay file not usable: %v", err)
		}
		for i := 0; i < 20; i++ {
			if v, _ := runBackpressure(t, c, prop == "C01"); v != "" {
				t.Fatalf("replay violates %s: %s", prop, v)
			}
		}
		return
	}
	rapid.Check(t, func(rt *rapid.T) {
		c := bpCase{Resume: uni(rt, "resume", 2)} // (no joins while the session is held up: a join waits on a mutex, which a synctest bubble cannot see as blocked)
		for i := 0; i < 2; i++ {
			c.M[i] = pick(rt, "m", []int{1, 40, 300, 520, 600, 900})
			c.Kind[i] = uni(rt, "kind", 3)
		}
		v, blocked := runBackpressure(t, c, prop == "C01")
		col.Case(fmt.Sprintf("%+v", c), v == "" && blocked, map[string]int{"sender_held_up": b2i(blocked)}, func() any { return c })
		if v != "" {
			col.Violations++
			saveCase(prop, c)
			rt.Fatalf("%s violated: %s (case %+v)", prop, v, c)
		}
	})
}

// C06 under back-pressure: a member that owns many non-persistent (and some
// persistent) entities leaves while another member has stopped reading; more
// than 512 delete relays queue up for the slow reader. After it has caught up
// every remaining member must have been told exactly once about each removed
// entity and once about the departure, and about no persistent entity.
type leaveBpCase struct {
	Entities   int  `json:"entities"`
	Persistent int  `json:"persistent"`
	Abort      bool `json:"abort"`
}

func runLeaveBackpressure(t *testing.T, c leaveBpCase) (viol string, queued int) {
	defer func() {
		if r := recover(); r != nil && viol == "" {
			viol = fmt.Sprintf("goroutines stay blocked forever: %v", r)
		}
	}()
	synctest.Test(t, func(t *testing.T) {
		w := NewWWorld(Config{Modules: []string{}, FrameMs: 15, Conns: 3}, WOpts{})
		defer w.Shutdown()
		ts := func() *timestamppb.Timestamp { return &timestamppb.Timestamp{Seconds: 1700000000} }
		const L, R, O = 0, 1, 2
		var sid string
		var lpid uint32
		for _, slot := range []int{L, R, O} {
			w.Connect(slot)
			w.Send(slot, &hagallpb.ParticipantJoinRequest{Type: TJoinReq, Timestamp: ts(), RequestId: 1, SessionId: sid})
			for _, rx := range w.Inbox(slot) {
				if jr, ok := rx.M.(*hagallpb.ParticipantJoinResponse); ok {
					sid = jr.SessionId
					if slot == L {
						lpid = jr.ParticipantId
					}
				}
			}
		}
		removed, kept := map[uint32]bool{}, map[uint32]bool{}
		for i := 0; i < c.Entities+c.Persistent; i++ {
			n := len(w.Inbox(L))
			persist := i < c.Persistent
			w.Send(L, &hagallpb.EntityAddRequest{Type: TEntityAddReq, Timestamp: ts(), RequestId: uint32(10 + i), Persist: persist})
			for _, rx := range w.Inbox(L)[n:] {
				if r, ok := rx.M.(*hagallpb.EntityAddResponse); ok {
					if persist {
						kept[r.EntityId] = true
					} else {
						removed[r.EntityId] = true
					}
				}
			}
		}
		w.Stall(R)
		if c.Abort {
			w.Abort(L)
		} else {
			w.Close(L)
		}
		w.Unstall(R)
		if p := w.Panics(); len(p) > 0 {
			viol = "server code panicked: " + p[0]
			return
		}
		for _, obs := range []int{R, O} {
			dels := map[uint32]int{}
			leaves := 0
			for _, rx := range w.Inbox(obs) {
				switch m := rx.M.(type) {
				case *hagallpb.EntityDeleteBroadcast:
					dels[m.EntityId]++
				case *hagallpb.ParticipantLeaveBroadcast:
					if m.ParticipantId == lpid {
						leaves++
					}
				}
			}
			if obs == R {
				queued = len(dels) + leaves
			}
			for id := range removed {
				if dels[id] != 1 {
					viol = fmt.Sprintf("remaining member c%d was told %d times that entity %d of the leaver was removed", obs, dels[id], id)
					return
				}
			}
			for id := range kept {
				if dels[id] != 0 {
					viol = fmt.Sprintf("remaining member c%d was told that the persistent entity %d was removed", obs, id)
					return
				}
			}
			if leaves != 1 {
				viol = fmt.Sprintf("remaining member c%d was told %d times about the departure of participant %d", obs, leaves, lpid)
				return
			}
		}
		w.Close(R)
		w.Close(O)
		if l := w.Leaks(); len(l) > 0 && viol == "" {
			viol = fmt.Sprintf("after every client has gone: %v", l)
		}
	})
	return
}

func TestC06Backpressure(t *testing.T) {
	col := NewCollector("C06", "Wbp", "wire driver: a member owning 1-800 non-persistent and 0-3 persistent entities leaves (close or transport abort) while another member has stopped reading, so that more than 512 delete relays queue up for it; it then catches up; every remaining member must have been told exactly once about each removed entity, once about the departure, and about no persistent entity; nothing may be left behind; non-trivial = distinct case with more than 512 relays for the slow reader")
	t.Cleanup(col.Write)
	if rp := os.Getenv("VERIF_REPLAY"); rp != "" {
		var c leaveBpCase
		if err := readJSON(rp, &c); err != nil || c.Entities == 0 {
			t.Skipf("replay file not usable: %v", err)
		}
		if v, _ := runLeaveBackpressure(t, c); v != "" {
			t.Fatalf("replay violates C06: %s", v)
		}
		return
	}
	rapid.Check(t, func(rt *rapid.T) {
		c := leaveBpCase{Entities: pick(rt, "entities", []int{1, 100, 511, 512, 513, 600, 800}), Persistent: uni(rt, "persistent", 4), Abort: uni(rt, "abort", 2) == 0}
		v, queued := runLeaveBackpressure(t, c)
		col.Case(fmt.Sprintf("%+v", c), v == "" && queued > 512, map[string]int{"more_than_512_relays": b2i(queued > 512)}, func() any { return c })
		if v != "" {
			col.Violations++
			saveCase("C06", c)
			rt.Fatalf("C06 violated: %s (case %+v)", v, c)
		}
	})
}

package props

import (
	"context"
	"fmt"
	"net"
	"net/http"
	"runtime/debug"
	"sync"
	"testing/synctest"
	"time"

	"github.com/aukilabs/go-tooling/pkg/logs"
	"github.com/aukilabs/hagall-common/ncsclient"
	"github.com/aukilabs/hagall/featureflag"
	"github.com/aukilabs/hagall/models"
	hws "github.com/aukilabs/hagall/websocket"
	"golang.org/x/net/websocket"
	"google.golang.org/protobuf/proto"
)

func init() {
	// the production decorators log every message; keep the test output clean
	logs.SetLogger(func(logs.Entry) {})
}

// ---------------------------------------------------------------------------
// Driver W: the real stack. http.Server -> x/net/websocket.Server ->
// websocket.Handle(ctx, conn, HandlerWithMetrics(HandlerWithLogs(&RealtimeHandler{}))),
// composed as in cmd/main.go; clients are real x/net/websocket clients over
// net.Pipe, one reader goroutine each. Runs inside a synctest bubble.

type pipeListener struct {
	ch     chan net.Conn
	closed chan struct{}
	once   sync.Once
}

func (l *pipeListener) Accept() (net.Conn, error) {
	select {
	case c := <-l.ch:
		return c, nil
	case <-l.closed:
		return nil, net.ErrClosed
	}
}
func (l *pipeListener) Close() error   { l.once.Do(func() { close(l.closed) }); return nil }
func (l *pipeListener) Addr() net.Addr { return pipeAddr{} }

type pipeAddr struct{}

func (pipeAddr) Network() string { return "pipe" }
func (pipeAddr) String() string  { return "pipe" }

type wConn struct {
	slot, gen int
	clientID  string
	ws        *websocket.Conn
	raw       net.Conn

	mu         sync.Mutex
	cond       *sync.Cond // signalled whenever the inbox grows or the reader stops
	inbox      []Rx
	rh         *hws.RealtimeHandler
	returned   bool // websocket.Handle returned on the server side
	entered    bool
	readDone   chan struct{}
	resume     chan struct{}
	stalled    bool // client stopped reading
	closed     bool
	readerGone bool
}

type WOpts struct {
	IdleTimeout   time.Duration
	SyncClock     time.Duration
	SummaryEvery  time.Duration
	PublicEndoint string
	Real          bool // real threads, real time: no synctest bubble
}

type WWorld struct {
	cfg      Config
	opts     WOpts
	store    *models.SessionStore
	receipts chan ncsclient.ReceiptPayload
	frame    time.Duration
	ln       *pipeListener
	srv      *http.Server
	ctx      context.Context
	cancel   context.CancelFunc

	mu       sync.Mutex
	conns    map[int]*wConn
	all      []*wConn
	panics   []string
	pending  map[string]*wConn // client id -> connection being established
	gen      map[int]int
	sessions map[*models.Session]bool
	handlers sync.WaitGroup
	clients0 float64 // ws_connected_clients when the world was created
}

func NewWWorld(cfg Config, o WOpts) *WWorld {
	if o.IdleTimeout == 0 {
		o.IdleTimeout = time.Hour
	}
	if o.SyncClock == 0 {
		o.SyncClock = time.Hour
	}
	if o.SummaryEvery == 0 {
		o.SummaryEvery = time.Hour
	}
	capn := cfg.ReceiptCap
	if capn <= 0 {
		capn = 128
	}
	fr := time.Duration(cfg.FrameMs) * time.Millisecond
	if fr <= 0 {
		fr = 15 * time.Millisecond
	}
	w := &WWorld{cfg: cfg, opts: o, store: &models.SessionStore{DiscoveryService: testDS{}}, receipts: make(chan ncsclient.ReceiptPayload, capn),
		frame: fr, conns: map[int]*wConn{}, pending: map[string]*wConn{}, gen: map[int]int{}, sessions: map[*models.Session]bool{},
		ln: &pipeListener{ch: make(chan net.Conn), closed: make(chan struct{})}}
	w.clients0 = gaugeValue("ws_connected_clients")
	w.ctx, w.cancel = context.WithCancel(context.Background())
	wsrv := websocket.Server{
		Handshake: func(*websocket.Config, *http.Request) error { return nil },
		Handler:   w.serve,
	}
	w.srv = &http.Server{Handler: wsrv}
	go w.srv.Serve(w.ln)
	return w
}

// serve is the connection handler of cmd/main.go, plus bookkeeping; a panic
// is recorded and swallowed exactly as net/http would.
func (w *WWorld) serve(conn *websocket.Conn) {
	w.handlers.Add(1)
	defer w.handlers.Done()
	id := conn.Request().Header.Get("posemesh-client-id")
	w.mu.Lock()
	c := w.pending[id]
	w.mu.Unlock()
	defer func() {
		if r := recover(); r != nil {
			w.mu.Lock()
			w.panics = append(w.panics, fmt.Sprintf("%v\n%s", r, firstFrames(debug.Stack())))
			w.mu.Unlock()
		}
		if c != nil {
			c.mu.Lock()
			c.returned = true
			c.mu.Unlock()
		}
	}()
	defer conn.Close()
	rh := &hws.RealtimeHandler{
		ClientSyncClockInterval: w.opts.SyncClock,
		ClientIdleTimeout:       w.opts.IdleTimeout,
		FrameDuration:           w.frame,
		Sessions:                w.store,
		Modules:                 newModules(w.cfg),
		FeatureFlags:            featureflag.New(w.cfg.Flags),
		ReceiptChan:             w.receipts,
		PrivateKey:              serverKey,
	}
	if c != nil {
		c.mu.Lock()
		c.rh = rh
		c.entered = true
		c.mu.Unlock()
	}
	var h hws.Handler = rh
	h = hws.HandlerWithLogs(h, w.opts.SummaryEvery)
	h = hws.HandlerWithMetrics(h, "https://verif.example")
	defer h.Close()
	hws.Handle(w.ctx, conn, h)
}

// wait lets everything settle: exact inside a bubble; a no-op in real-time
// runs, where callers synchronise on what they receive.
func (w *WWorld) wait() {
	if !w.opts.Real {
		synctest.Wait()
	}
}

func (w *WWorld) Name() string                                { return "W" }
func (w *WWorld) Store() *models.SessionStore                 { return w.store }
func (w *WWorld) ReceiptQueue() chan ncsclient.ReceiptPayload { return w.receipts }
func (w *WWorld) Frame() time.Duration                        { return w.frame }

func (w *WWorld) Panics() []string {
	w.mu.Lock()
	defer w.mu.Unlock()
	return append([]string{}, w.panics...)
}

func (w *WWorld) ClientID(slot int) string {
	if c := w.conns[slot]; c != nil {
		return c.clientID
	}
	return ""
}

func (w *WWorld) RH(slot int) *hws.RealtimeHandler {
	c := w.conns[slot]
	if c == nil {
		return nil
	}
	c.mu.Lock()
	defer c.mu.Unlock()
	return c.rh
}

func (w *WWorld) Inbox(slot int) []Rx {
	c := w.conns[slot]
	if c == nil {
		return nil
	}
	c.mu.Lock()
	defer c.mu.Unlock()
	return append([]Rx{}, c.inbox...)
}

func (w *WWorld) Ended(slot int) bool {
	c := w.conns[slot]
	if c == nil {
		return true
	}
	c.mu.Lock()
	defer c.mu.Unlock()
	return c.returned
}

func (w *WWorld) Connect(slot int) {
	w.gen[slot]++
	c := &wConn{slot: slot, gen: w.gen[slot], clientID: fmt.Sprintf("client-%d-%d", slot, w.gen[slot]), readDone: make(chan struct{}), resume: make(chan struct{})}
	c.cond = sync.NewCond(&c.mu)
	cli, srv := net.Pipe()
	c.raw = cli
	w.mu.Lock()
	w.pending[c.clientID] = c
	w.mu.Unlock()
	w.ln.ch <- srv
	cfg, err := websocket.NewConfig("ws://verif.example/", "http://localhost")
	if err != nil {
		panic(err)
	}
	cfg.Header.Set("posemesh-client-id", c.clientID)
	cfg.Header.Set("User-Agent", "verif")
	if k := appKeyOf(slot); k != "" {
		cfg.Header.Set("Authorization", "Bearer "+appKeyToken(k))
	}
	ws, err := websocket.NewClient(cfg, cli)
	if err != nil {
		panic(fmt.Sprintf("websocket handshake failed: %v", err))
	}
	c.ws = ws
	w.conns[slot] = c
	w.all = append(w.all, c)
	go c.readLoop()
	w.wait()
}

func (c *wConn) readLoop() {
	defer close(c.readDone)
	defer func() {
		c.mu.Lock()
		c.readerGone = true
		c.cond.Broadcast()
		c.mu.Unlock()
	}()
	for {
		c.mu.Lock()
		st := c.stalled
		c.mu.Unlock()
		if st {
			c.mu.Lock()
			ch := c.resume
			c.mu.Unlock()
			<-ch
			continue
		}
		var b []byte
		if err := websocket.Message.Receive(c.ws, &b); err != nil {
			return
		}
		rx, err := decodeBytes(b)
		if err != nil {
			rx.T = -2
		}
		c.mu.Lock()
		rx.Seq = len(c.inbox)
		c.inbox = append(c.inbox, rx)
		c.cond.Broadcast()
		c.mu.Unlock()
	}
}

func (w *WWorld) Send(slot int, p proto.Message) {
	b, err := proto.Marshal(p)
	if err != nil {
		panic(err)
	}
	w.SendBytes(slot, b)
}

func (w *WWorld) SendBytes(slot int, b []byte) {
	c := w.conns[slot]
	if c == nil || c.closed {
		return
	}
	// the write fails when the server has already closed the connection
	_ = websocket.Message.Send(c.ws, b)
	w.wait()
	w.note(c)
}

// SendNoWait writes a frame without waiting for the server to settle (bursts).
func (w *WWorld) SendNoWait(slot int, b []byte) error {
	c := w.conns[slot]
	if c == nil || c.closed {
		return net.ErrClosed
	}
	return websocket.Message.Send(c.ws, b)
}

// SendText writes a text frame (the protocol only allows binary frames).
func (w *WWorld) SendText(slot int, s string) {
	c := w.conns[slot]
	if c == nil || c.closed {
		return
	}
	_ = websocket.Message.Send(c.ws, s)
	w.wait()
}

// WriteRaw writes raw bytes below the WebSocket framing layer.
func (w *WWorld) WriteRaw(slot int, b []byte) {
	c := w.conns[slot]
	if c == nil || c.closed {
		return
	}
	c.raw.SetWriteDeadline(time.Now().Add(time.Second))
	c.raw.Write(b)
	c.raw.SetWriteDeadline(time.Time{})
	w.wait()
}

func (w *WWorld) note(c *wConn) {
	c.mu.Lock()
	rh := c.rh
	c.mu.Unlock()
	if rh != nil {
		if s := rh.CurrentSession(); s != nil {
			w.mu.Lock()
			w.sessions[s] = true
			w.mu.Unlock()
		}
	}
}

func (w *WWorld) Close(slot int) {
	c := w.conns[slot]
	if c == nil || c.closed {
		return
	}
	c.closed = true
	c.ws.Close()
	w.wait()
}

func (w *WWorld) Advance(d time.Duration) {
	time.Sleep(d)
	w.wait()
}

func (w *WWorld) Shutdown() {
	for _, c := range w.all {
		c.mu.Lock()
		if c.stalled {
			c.stalled = false
			close(c.resume)
		}
		c.mu.Unlock()
		if !c.closed {
			c.closed = true
			c.ws.Close()
		}
	}
	w.wait()
	w.cancel()
	w.srv.Close()
	w.ln.Close()
	w.wait()
	w.mu.Lock()
	for s := range w.sessions {
		s.Close()
	}
	w.mu.Unlock()
	for _, c := range w.all {
		w.note(c)
	}
	for s := range w.sessions {
		s.Close()
	}
	w.wait()
}

// Leaks: after every client has gone, every handler must have returned, no
// goroutine of a connection or session may remain and the connected-clients
// gauge must be back at its previous value.
func (w *WWorld) Leaks() []string {
	var out []string
	w.wait()
	for _, c := range w.all {
		c.mu.Lock()
		if c.entered && !c.returned {
			out = append(out, fmt.Sprintf("the handler of connection c%d.%d has not returned", c.slot, c.gen))
		}
		c.mu.Unlock()
	}
	for _, fn := range []string{"websocket.(*handler).startSending", "websocket.(*handler).startReceiving", "websocket.(*handlerWithLogs).startSummaryWorker", "websocket.(*handler).Handle", "models.(*Session).StartDispatchFrames"} {
		if n := countGoroutines(fn); n != 0 {
			out = append(out, fmt.Sprintf("%d goroutine(s) still in %s", n, fn))
		}
	}
	if g := gaugeValue("ws_connected_clients") - w.clients0; g != 0 {
		out = append(out, fmt.Sprintf("ws_connected_clients is off by %v from its value before the connections", g))
	}
	return out
}

func (w *WWorld) Settle() { w.wait() }

// Stall: the client stops reading (after at most one message that its reader
// was already waiting for).
func (w *WWorld) Stall(slot int) {
	if c := w.conns[slot]; c != nil {
		c.mu.Lock()
		c.stalled = true
		c.mu.Unlock()
	}
}

// Abort drops the transport without a WebSocket close frame.
func (w *WWorld) Abort(slot int) {
	c := w.conns[slot]
	if c == nil || c.closed {
		return
	}
	c.closed = true
	c.raw.Close()
	w.wait()
}

// wsFrame builds one masked binary client frame.
func wsFrame(payload []byte) []byte {
	b := []byte{0x82}
	n := len(payload)
	switch {
	case n < 126:
		b = append(b, 0x80|byte(n))
	case n < 65536:
		b = append(b, 0x80|126, byte(n>>8), byte(n))
	default:
		b = append(b, 0x80|127, 0, 0, 0, 0, byte(n>>24), byte(n>>16), byte(n>>8), byte(n))
	}
	key := [4]byte{0x11, 0x22, 0x33, 0x44}
	b = append(b, key[:]...)
	for i, c := range payload {
		b = append(b, c^key[i%4])
	}
	return b
}

// SendBurst writes all frames with a single transport write, as a client on a
// real network does when it pipelines requests: the server finds them all in
// its read buffer.
func (w *WWorld) SendBurst(slot int, frames [][]byte) {
	c := w.conns[slot]
	if c == nil || c.closed {
		return
	}
	var buf []byte
	for _, f := range frames {
		buf = append(buf, wsFrame(f)...)
	}
	done := make(chan struct{})
	go func() {
		defer close(done)
		c.raw.SetWriteDeadline(time.Now().Add(time.Minute))
		c.raw.Write(buf)
		c.raw.SetWriteDeadline(time.Time{})
	}()
	w.wait()
}

// Unstall: the client resumes reading.
func (w *WWorld) Unstall(slot int) {
	if c := w.conns[slot]; c != nil {
		c.mu.Lock()
		if c.stalled {
			c.stalled = false
			close(c.resume)
			c.resume = make(chan struct{})
		}
		c.mu.Unlock()
	}
	w.wait()
}

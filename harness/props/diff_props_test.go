package props

import (
	"fmt"
	"os"
	"sort"
	"strings"
	"testing"
	"testing/synctest"

	"pgregory.net/rapid"
)

// noEndedRefs rewrites session references whose meaning depends on which
// released session id the id source happens to hand out next (map iteration
// order inside the id generator): differential runs need the same addressing
// in every run.
func noEndedRefs(sc *Script) {
	for i := range sc.Steps {
		if sc.Steps[i].Op == OpJoin && sc.Steps[i].Sess.Kind == SessEnded {
			sc.Steps[i].Sess = Ref{Kind: SessGarbage, N: 0}
		}
	}
}

// replayOn runs a recorded trace on a fresh handler-level world in a bubble.
func replayOn(t *testing.T, cfg Config, evs []TraceEvent, remap func(TraceEvent) (TraceEvent, bool)) (res ReplayResult, dump []string) {
	return replayOnDriver(t, cfg, evs, remap, false)
}

// replayOnDriver: wire=true replays over the real stack (driver W).
func replayOnDriver(t *testing.T, cfg Config, evs []TraceEvent, remap func(TraceEvent) (TraceEvent, bool), wire bool) (res ReplayResult, dump []string) {
	synctest.Test(t, func(t *testing.T) {
		var w Driver
		if wire {
			w = NewWWorld(cfg, WOpts{})
		} else {
			w = NewHWorld(cfg)
		}
		res = replayTrace(w, evs, remap)
		dump = dumpStore(w.Store(), res.Insts, cfg)
		w.Shutdown()
	})
	return
}

var allFlags = []string{"DISABLE_SESSION_STATE", "DISABLE_PARTICIPANT_JOIN_BROADCAST", "DISABLE_PARTICIPANT_LEAVE_BROADCAST", "DISABLE_ENTITY_ADD_BROADCAST",
	"DISABLE_ENTITY_DELETE_BROADCAST", "DISABLE_ENTITY_UPDATE_POSE_BROADCAST", "DISABLE_CUSTOM_MESSAGE_BROADCAST", "DISABLE_ENTITY_COMPONENT_ADD_BROADCAST",
	"DISABLE_ENTITY_COMPONENT_UPDATE_BROADCAST", "DISABLE_ENTITY_COMPONENT_DELETE_BROADCAST"}

var flagClass = map[string]int32{
	"DISABLE_SESSION_STATE": TSessionState, "DISABLE_PARTICIPANT_JOIN_BROADCAST": TJoinBcast, "DISABLE_PARTICIPANT_LEAVE_BROADCAST": TLeaveBcast,
	"DISABLE_ENTITY_ADD_BROADCAST": TEntityAddBcast, "DISABLE_ENTITY_DELETE_BROADCAST": TEntityDelBcast, "DISABLE_ENTITY_UPDATE_POSE_BROADCAST": TPoseBcast,
	"DISABLE_CUSTOM_MESSAGE_BROADCAST": TCustomBcast, "DISABLE_ENTITY_COMPONENT_ADD_BROADCAST": TCompAddBcast,
	"DISABLE_ENTITY_COMPONENT_UPDATE_BROADCAST": TCompUpdateBcast, "DISABLE_ENTITY_COMPONENT_DELETE_BROADCAST": TCompDelBcast,
}

func flagsFromMask(mask int, unknown bool) []string {
	var fs []string
	for i, f := range allFlags {
		if mask&(1<<i) != 0 {
			fs = append(fs, f)
		}
	}
	if unknown {
		fs = append(fs, "DISABLE_EVERYTHING", "disable_session_state", "")
		// names that merely resemble a flag that is NOT set: a value appended, another case, a plural
		for i, f := range allFlags {
			if mask&(1<<i) == 0 {
				switch i % 4 {
				case 0:
					fs = append(fs, f+"=false")
				case 1:
					fs = append(fs, f+"=0")
				case 2:
					fs = append(fs, strings.ToLower(f))
				default:
					fs = append(fs, f+"S")
				}
			}
		}
	}
	return fs
}

// renderStream flattens per-step receipts, optionally dropping message classes.
func renderStream(rx []StepRx, drop map[int32]bool) []string {
	var out []string
	for _, sr := range rx {
		var ms []string
		for i, m := range sr.Msgs {
			if drop != nil && drop[sr.Types[i]] {
				continue
			}
			ms = append(ms, m)
		}
		if len(ms) > 0 {
			out = append(out, fmt.Sprintf("step %d c%d.%d: %s", sr.Step, sr.Slot, sr.Gen, strings.Join(ms, " | ")))
		}
	}
	return out
}

func firstDiff(a, b []string) string {
	for i := 0; i < len(a) || i < len(b); i++ {
		var x, y string
		if i < len(a) {
			x = a[i]
		}
		if i < len(b) {
			y = b[i]
		}
		if x != y {
			return fmt.Sprintf("\n   expected: %s\n   got:      %s", x, y)
		}
	}
	return ""
}

// C17: metamorphic relation between the flag-free run and the run under F.
func flagCase(t *testing.T, sc Script, mask int, unknown bool, wire bool) (viol string, nt bool, labels map[string]int, foreign bool) {
	exl := exclusionsFromFindings()
	exl.SerialiseCompConflicts = true
	ex := RunH(t, sc, CaseOpts{Ex: exl, Wire: wire})
	labels = ex.Labels
	if len(ex.Viol) > 0 {
		return "", false, labels, true // the flag-free run itself is not in order: other checks decide that
	}
	evs := ex.Rec.ev
	base, baseDump := replayOnDriver(t, sc.Cfg, evs, nil, wire)
	fcfg := sc.Cfg
	fcfg.Flags = flagsFromMask(mask, unknown)
	got, gotDump := replayOnDriver(t, fcfg, evs, nil, wire)
	drop := map[int32]bool{}
	for _, f := range fcfg.Flags {
		if c, ok := flagClass[f]; ok {
			drop[c] = true
		}
	}
	classes, removed := map[int32]bool{}, 0
	for _, sr := range base.Rx {
		for _, ty := range sr.Types {
			for _, c := range flagClass {
				if c == ty {
					classes[ty] = true
					if drop[ty] {
						removed++
					}
				}
			}
		}
	}
	nt = len(classes) >= 3 && removed >= 1
	if len(got.Panics) > 0 {
		return "server code panicked under flags " + fmt.Sprint(fcfg.Flags) + ": " + got.Panics[0], nt, labels, false
	}
	want := renderStream(base.Rx, drop)
	have := renderStream(got.Rx, nil)
	if d := firstDiff(want, have); d != "" {
		return fmt.Sprintf("with flags %v the clients do not receive the flag-free streams minus the named classes:%s", fcfg.Flags, d), nt, labels, false
	}
	if d := firstDiff(baseDump, gotDump); d != "" {
		return fmt.Sprintf("with flags %v the server holds a different state:%s", fcfg.Flags, d), nt, labels, false
	}
	return "", nt, labels, false
}

func saveCase(prop string, v any) {
	dir := os.Getenv("VERIF_FAIL_DIR")
	if dir == "" {
		return
	}
	writeJSON(fmt.Sprintf("%s/%s.case.json", dir, prop), v)
}

type flagReplay struct {
	Property  string   `json:"property"`
	Script    Script   `json:"script"`
	Mask      int      `json:"flag_mask"`
	Unknown   bool     `json:"unknown_names"`
	Flags     []string `json:"flags"`
	Pretty    []string `json:"pretty"`
	Violation string   `json:"violation"`
}

func TestC17Flags(t *testing.T) { flagsTest(t, false) }
func TestC17Wire(t *testing.T)  { flagsTest(t, true) }

func flagsTest(t *testing.T, wire bool) {
	part := "H"
	if wire {
		part = "W"
	}
	col := NewCollector("C17", part, genRule+"each script is run flag-free under the reference model, its concrete trace is replayed on a fresh flag-free server and on a fresh server with flag set F (singles, empty, full, random subsets, unknown names; thorough tier: all 1024 subsets round-robin); per connection and step the F-stream must equal the flag-free stream minus the classes F names, and the final server state must be equal; non-trivial = distinct (script, F) where >=3 of the ten classes occur flag-free and F removes >=1 message")
	t.Cleanup(col.Write)
	p := prof("c17", map[Op]int{OpJoin: 7, OpClose: 3, OpCustom: 8, OpPose: 10, OpTick: 10, OpCompAdd: 12, OpCompUpdate: 10, OpCompDel: 6, OpSub: 10, OpReceipt: 0})
	if rp := os.Getenv("VERIF_REPLAY"); rp != "" {
		var fr flagReplay
		if err := readJSON(rp, &fr); err != nil || len(fr.Script.Steps) == 0 {
			t.Skipf("replay file not usable: %v", err)
		}
		v, _, labels, _ := flagCase(t, fr.Script, fr.Mask, fr.Unknown, wire)
		col.Case(fr.Script.Digest(), true, labels, func() any { return fr.Pretty })
		if v != "" {
			col.Violations++
			t.Fatalf("replay violates C17: %s", v)
		}
		return
	}
	exhaustive := os.Getenv("VERIF_TIER") == "thorough"
	shard := envInt("VERIF_SHARD", 0)
	n := 0
	rapid.Check(t, func(rt *rapid.T) {
		sc := p.GenScript(rt)
		noEndedRefs(&sc)
		var mask int
		unknown := false
		switch k := uni(rt, "flag_kind", 10); {
		case exhaustive:
			mask = (n*16 + shard) % 1024 // all 1024 subsets, spread over the shards
		case k < 4:
			mask = 1 << uni(rt, "flag_single", 10)
		case k == 4:
			mask = 0
			unknown = true
		case k == 5:
			mask = 1023
		default:
			mask = uni(rt, "flag_mask", 1024)
			unknown = uni(rt, "flag_unknown", 4) == 0
		}
		n++
		v, nt, labels, foreign := flagCase(t, sc, mask, unknown, wire)
		col.Case(fmt.Sprintf("%s/%d/%v", sc.Digest(), mask, unknown), nt, labels, func() any {
			return map[string]any{"flags": flagsFromMask(mask, unknown), "script": sc.Pretty()}
		})
		if foreign {
			col.Foreign++
		}
		col.Labels[fmt.Sprintf("flagset_size_%d", popcount(mask))]++
		if v != "" {
			col.Violations++
			saveCase("C17", flagReplay{Property: "C17", Script: sc, Mask: mask, Unknown: unknown, Flags: flagsFromMask(mask, unknown), Pretty: sc.Pretty(), Violation: v})
			rt.Fatalf("C17 violated: %s\nscript:\n  %s", v, strings.Join(sc.Pretty(), "\n  "))
		}
	})
}

func popcount(x int) int {
	n := 0
	for ; x != 0; x &= x - 1 {
		n++
	}
	return n
}

// ---------------------------------------------------------------------------
// C03: noninterference. For every session instance T of a run, replay only
// the stints of connections while they are in T on a fresh server; every
// stint must receive the same messages in both runs.

type stintKey struct{ slot, gen, stint int }

func projectOn(evs []TraceEvent, T int) (proj []TraceEvent, stintOf map[[3]int]int) {
	// stint bookkeeping per (slot, gen)
	cur := map[[2]int]int{}   // (slot,gen) -> current projected slot (0 = not in T)
	count := map[[2]int]int{} // stints so far
	stintOf = map[[3]int]int{}
	exists := false
	for _, ev := range evs {
		switch ev.Kind {
		case EvAdvance:
			proj = append(proj, ev)
		case EvConnect:
			// connections are created when their stint in T starts
		case EvClose, EvSend:
			k := [2]int{ev.Slot, ev.Gen}
			in := cur[k]
			switch {
			case ev.Before != T && ev.After == T: // enters T
				count[k]++
				ps := ev.Slot*1000 + ev.Gen*20 + count[k]
				cur[k] = ps
				stintOf[[3]int{ev.Slot, ev.Gen, ev.Step}] = ps
				proj = append(proj, TraceEvent{Step: ev.Step, Kind: EvConnect, Slot: ps, Gen: 1})
				e2 := ev
				e2.Slot, e2.Gen = ps, 1
				if exists {
					e2.JoinInst = 1
				} else {
					e2.JoinInst = 0
					exists = true
				}
				proj = append(proj, e2)
			case in != 0 && ev.Before == T && ev.After == T:
				e2 := ev
				e2.Slot, e2.Gen = in, 1
				if e2.JoinInst > 0 || e2.JoinInst == 0 { // a (refused) join while staying in T
					if e2.JoinInst == T {
						e2.JoinInst = 1
					} else if e2.JoinInst > 0 {
						e2.JoinInst = -2
						e2.Bytes = nil
						continue // join of another live session would not be refused: cannot happen while staying in T
					}
				}
				proj = append(proj, e2)
			case in != 0 && ev.Before == T && ev.After != T: // leaves T
				if ev.Kind == EvSend && ev.JoinInst != -2 || ev.Kind == EvSend && isJoin(ev.Bytes) {
					// a switch: for T it is a plain departure
					proj = append(proj, TraceEvent{Step: ev.Step, Kind: EvClose, Slot: in, Gen: 1})
				} else {
					e2 := ev
					e2.Slot, e2.Gen = in, 1
					proj = append(proj, e2)
				}
				cur[k] = 0
			}
		}
	}
	return
}

func isJoin(b []byte) bool {
	rx, err := decodeBytes(b)
	_ = rx
	if err != nil {
		return false
	}
	var env struct{}
	_ = env
	return len(b) > 1 && b[0] == 0x08 && b[1] == TJoinReq
}

func maskSessions(lines []string) []string {
	out := make([]string, len(lines))
	for i, l := range lines {
		for {
			j := strings.Index(l, "session=S")
			if j < 0 {
				break
			}
			k := j + len("session=S")
			for k < len(l) && l[k] != ' ' && l[k] != '}' {
				k++
			}
			l = l[:j] + "session=#" + l[k:]
		}
		out[i] = l
	}
	return out
}

func isoCase(t *testing.T, sc Script) (viol string, nt bool, labels map[string]int, foreign bool) {
	exl := exclusionsFromFindings()
	exl.SerialiseCompConflicts = true
	ex := RunH(t, sc, CaseOpts{Ex: exl})
	labels = ex.Labels
	mine, other := violationsFor(ex, "C03")
	if len(mine) > 0 {
		return mine[0].String(), false, labels, false
	}
	// if another property's check stopped the reference run, the trace so
	// far is still a valid history: the differential oracle runs on it
	foreign = len(other) > 0
	evs := ex.Rec.ev
	full, _ := replayOn(t, sc.Cfg, evs, nil)
	nt = !foreign && lab(ex, "two_sessions_live", "join_switch", "id_of_other_session")
	for T := 1; T <= ex.M.sessSeq; T++ {
		proj, _ := projectOn(evs, T)
		pr, _ := replayOn(t, sc.Cfg, proj, nil)
		if len(pr.Panics) > 0 {
			return "server code panicked in the projected run: " + pr.Panics[0], nt, labels, foreign
		}
		// expected: what the members of T received in the full run, per stint
		want := map[int][]string{}
		inT := map[[2]int]int{}
		count := map[[2]int]int{}
		byStep := map[int][]StepRx{}
		for _, sr := range full.Rx {
			byStep[sr.Step] = append(byStep[sr.Step], sr)
		}
		steps := map[int]bool{}
		for _, ev := range evs {
			steps[ev.Step] = true
		}
		var order []int
		for s := range steps {
			order = append(order, s)
		}
		sort.Ints(order)
		evByStep := map[int][]TraceEvent{}
		for _, ev := range evs {
			evByStep[ev.Step] = append(evByStep[ev.Step], ev)
		}
		for _, s := range order {
			leaving := map[[2]int]bool{}
			for _, ev := range evByStep[s] {
				if ev.Kind == EvAdvance || ev.Kind == EvConnect {
					continue
				}
				k := [2]int{ev.Slot, ev.Gen}
				if ev.Before != T && ev.After == T {
					count[k]++
					inT[k] = ev.Slot*1000 + ev.Gen*20 + count[k]
				} else if inT[k] != 0 && ev.Before == T && ev.After != T {
					leaving[k] = true
				}
			}
			for _, sr := range byStep[s] {
				k := [2]int{sr.Slot, sr.Gen}
				if ps := inT[k]; ps != 0 && !leaving[k] {
					want[ps] = append(want[ps], renderStream([]StepRx{{Step: sr.Step, Slot: 0, Gen: 0, Msgs: sr.Msgs, Types: sr.Types}}, nil)...)
				}
			}
			for k := range leaving {
				inT[k] = 0
			}
		}
		got := map[int][]string{}
		for _, sr := range pr.Rx {
			got[sr.Slot] = append(got[sr.Slot], renderStream([]StepRx{{Step: sr.Step, Slot: 0, Gen: 0, Msgs: sr.Msgs, Types: sr.Types}}, nil)...)
		}
		keys := map[int]bool{}
		for k := range want {
			keys[k] = true
		}
		for k := range got {
			keys[k] = true
		}
		var ks []int
		for k := range keys {
			ks = append(ks, k)
		}
		sort.Ints(ks)
		for _, k := range ks {
			if d := firstDiff(maskSessions(want[k]), maskSessions(got[k])); d != "" {
				return fmt.Sprintf("session instance %d: a member (connection c%d, stint %d) receives other messages when the other sessions' traffic is removed:%s", T, k/1000, k%20, d), nt, labels, foreign
			}
		}
	}
	return "", nt, labels, foreign
}

func TestC03Isolation(t *testing.T) {
	col := NewCollector("C03", "H", genRule+"2-3 sessions alive at once, connections that never join, switch and come back, ids that exist only in other sessions (entity/participant/type ids coincide across sessions), session ids reused after their session ended; oracle (a) reference model: nothing a connection sends shows up in a session it is not in; (b) differential: for every session instance T the history is re-run on a fresh server with only the stints of connections while they are in T (a switch away becomes a close) and every stint's normalised message stream must be identical (session ids masked); non-trivial = distinct script with >=2 sessions alive at once, >=1 switch and >=1 request naming an id that exists only in another session")
	t.Cleanup(col.Write)
	p := prof("c03", map[Op]int{OpJoin: 14, OpClose: 4, OpEntityAdd: 14, OpEntityDel: 8, OpPose: 8, OpTick: 8, OpReceipt: 0, OpLatency: 0, OpPingResp: 0, OpQuad: 5, OpGround: 4, OpRegion: 4, OpDebug: 2})
	if rp := os.Getenv("VERIF_REPLAY"); rp != "" {
		sc, err := loadReplay(rp)
		if err != nil {
			t.Skipf("replay file not usable: %v", err)
		}
		v, _, labels, _ := isoCase(t, sc)
		col.Case(sc.Digest(), true, labels, func() any { return sc.Pretty() })
		if v != "" {
			col.Violations++
			t.Fatalf("replay violates C03: %s", v)
		}
		return
	}
	rapid.Check(t, func(rt *rapid.T) {
		sc := p.GenScript(rt)
		noEndedRefs(&sc)
		v, nt, labels, foreign := isoCase(t, sc)
		col.Case(sc.Digest(), nt, labels, func() any { return sc.Pretty() })
		if foreign {
			col.Foreign++
		}
		if v != "" {
			col.Violations++
			saveFailure("C03", sc, []Violation{{Tags: "C03", Msg: v}})
			rt.Fatalf("C03 violated: %s\nscript:\n  %s", v, strings.Join(sc.Pretty(), "\n  "))
		}
	})
}

package props

import (
	"strconv"
	"bytes"
	"encoding/json"
	"fmt"
	"io"
	"net"
	"net/http"
	"net/http/httptest"
	"os"
	"os/exec"
	"path/filepath"
	"sort"
	"strings"
	"sync"
	"syscall"
	"testing"
	"time"

	"github.com/aukilabs/hagall-common/messages/hagallpb"
	"github.com/aukilabs/hagall-common/ncsclient"
	"golang.org/x/net/websocket"
	"google.golang.org/protobuf/proto"
	"google.golang.org/protobuf/types/known/timestamppb"
	"pgregory.net/rapid"
)

// ---------------------------------------------------------------------------
// Driver B: the real binary (go build /repo/cmd) as a child process, a
// harness-owned fake discovery service (answers POST /servers, then calls the
// child's /registrations with state, id and JWT secret), a harness-owned
// credit-service endpoint, real WebSocket clients over loopback TCP. Decides
// what only cmd/main.go decides: which routes sit behind the token check,
// how HAGALL_FEATURE_FLAGS is parsed, whether receipts are wired through.

type bProc struct {
	cmd      *exec.Cmd
	addr     string
	secret   string
	hds, ncs *httptest.Server
	mu       sync.Mutex
	receipts []ncsclient.ReceiptPayload
	hdsHits  []string
	logf     *os.File
}

var (
	bBinOnce sync.Once
	bBinPath string
	bBinErr  error
)

func buildBinary() (string, error) {
	bBinOnce.Do(func() {
		repo := os.Getenv("VERIF_REPO")
		if repo == "" {
			repo = "/repo"
		}
		dir := os.Getenv("VERIF_DIR")
		if dir == "" {
			dir = "/verif"
		}
		out := filepath.Join(dir, ".build", fmt.Sprintf("hagall.%d.bin", os.Getpid()))
		os.MkdirAll(filepath.Dir(out), 0o755)
		cmd := exec.Command("go1.26.8", "build", "-o", out, "./cmd")
		cmd.Dir = repo
		cmd.Env = append(os.Environ(), "GOFLAGS=-mod=mod", "GOPROXY=off", "GOSUMDB=off", "GOTOOLCHAIN=local")
		if b, err := cmd.CombinedOutput(); err != nil {
			bBinErr = fmt.Errorf("building cmd failed: %v\n%s", err, b)
			return
		}
		bBinPath = out
	})
	return bBinPath, bBinErr
}

func freePort() string {
	l, err := net.Listen("tcp", "127.0.0.1:0")
	if err != nil {
		panic(err)
	}
	defer l.Close()
	return l.Addr().String()
}

// startB starts the binary. register=false: the discovery service accepts the
// registration request but never calls back, so the server holds no secret.
func startB(flags string, register bool, extraEnv ...string) (*bProc, error) {
	bin, err := buildBinary()
	if err != nil {
		return nil, err
	}
	p := &bProc{secret: "c2VjcmV0LWZvci1i"}
	p.ncs = httptest.NewServer(http.HandlerFunc(func(w http.ResponseWriter, r *http.Request) {
		b, _ := io.ReadAll(r.Body)
		var rp ncsclient.ReceiptPayload
		if r.URL.Path == "/receipt" && json.Unmarshal(b, &rp) == nil {
			p.mu.Lock()
			p.receipts = append(p.receipts, rp)
			p.mu.Unlock()
		}
		w.WriteHeader(200)
	}))
	p.hds = httptest.NewServer(http.HandlerFunc(func(w http.ResponseWriter, r *http.Request) {
		b, _ := io.ReadAll(r.Body)
		p.mu.Lock()
		p.hdsHits = append(p.hdsHits, r.Method+" "+r.URL.Path)
		p.mu.Unlock()
		if r.Method == http.MethodPost && r.URL.Path == "/servers" {
			var in struct {
				State    string `json:"state"`
				Endpoint string `json:"endpoint"`
			}
			json.Unmarshal(b, &in)
			if register {
				go func() {
					for i := 0; i < 100; i++ {
						req, _ := http.NewRequest(http.MethodPost, "http://"+p.addr+"/registrations", nil)
						req.Header.Set("Hagall-Registration-State", in.State)
						req.Header.Set("Hagall-Id", "srv")
						req.Header.Set("Hagall-Jwt-Secret", p.secret)
						if resp, err := http.DefaultClient.Do(req); err == nil {
							resp.Body.Close()
							if resp.StatusCode == 200 {
								return
							}
						}
						time.Sleep(20 * time.Millisecond)
					}
				}()
			}
		}
		w.WriteHeader(200)
		w.Write([]byte("{}"))
	}))
	// the fake services hold their ports by now: the ports picked for the binary cannot be theirs
	p.addr = freePort()
	admin := freePort()
	p.cmd = exec.Command(bin)
	p.cmd.Env = []string{
		"HAGALL_ADDR=" + p.addr, "HAGALL_ADMIN_ADDR=" + admin, "HAGALL_PUBLIC_ENDPOINT=http://" + p.addr,
		"HAGALL_PRIVATE_KEY=4c0883a69102937d6231471b5dbb6204fe5129617082792ae468d01a3f362318",
		"HAGALL_HDS_ENDPOINT=" + p.hds.URL, "HAGALL_EVENTS_ENDPOINT=", "HAGALL_NCS_ENDPOINT=" + p.ncs.URL,
		"HAGALL_LOG_LEVEL=error", "HAGALL_FRAME_DURATION=5ms", "HAGALL_FEATURE_FLAGS=" + flags,
		"HAGALL_CLOCK_CHECKER_INITIAL_DELAY=1h", "HOME=" + os.TempDir(), "PATH=" + os.Getenv("PATH"),
	}
	p.cmd.Env = append(p.cmd.Env, extraEnv...)
	p.logf, _ = os.CreateTemp("", "hagall-b-*.log")
	p.cmd.Stdout, p.cmd.Stderr = p.logf, p.logf
	if err := p.cmd.Start(); err != nil {
		return nil, err
	}
	// wait until it listens (and, if asked for, is registered)
	deadline := time.Now().Add(15 * time.Second)
	for time.Now().Before(deadline) {
		resp, err := http.Get("http://" + p.addr + "/ready")
		if err == nil {
			resp.Body.Close()
			if !register || resp.StatusCode == 200 {
				// The port was picked by listening on :0 and closing again: between that and the
				// child's own bind ANOTHER process (or one of this test's fake services) can take it,
				// and would then answer these requests - a fake service with 200 to everything. Only
				// go on if the listening socket really belongs to the child.
				if !p.alive() || !ownsPort(p.cmd.Process.Pid, p.addr) {
					p.stop()
					return nil, fmt.Errorf("the port %s is not held by the started binary (inconclusive)", p.addr)
				}
				return p, nil
			}
		}
		time.Sleep(10 * time.Millisecond)
	}
	p.stop()
	return nil, fmt.Errorf("the binary did not become ready (inconclusive)")
}

// ownsPort reports whether process pid holds a listening TCP socket on addr's port (Linux /proc).
func ownsPort(pid int, addr string) bool {
	_, portStr, err := net.SplitHostPort(addr)
	if err != nil {
		return false
	}
	port, _ := strconv.Atoi(portStr)
	inodes := map[string]bool{}
	for _, f := range []string{"/proc/net/tcp", "/proc/net/tcp6"} {
		b, err := os.ReadFile(f)
		if err != nil {
			continue
		}
		for _, line := range strings.Split(string(b), "\n")[1:] {
			fs := strings.Fields(line)
			if len(fs) < 10 || fs[3] != "0A" { // 0A = LISTEN
				continue
			}
			i := strings.LastIndex(fs[1], ":")
			if i < 0 {
				continue
			}
			if lp, err := strconv.ParseInt(fs[1][i+1:], 16, 32); err == nil && int(lp) == port {
				inodes[fs[9]] = true
			}
		}
	}
	if len(inodes) == 0 {
		return false
	}
	fds, err := os.ReadDir(fmt.Sprintf("/proc/%d/fd", pid))
	if err != nil {
		return false
	}
	for _, fd := range fds {
		if l, err := os.Readlink(fmt.Sprintf("/proc/%d/fd/%s", pid, fd.Name())); err == nil && strings.HasPrefix(l, "socket:[") && inodes[strings.TrimSuffix(strings.TrimPrefix(l, "socket:["), "]")] {
			return true
		}
	}
	return false
}

func (p *bProc) alive() bool {
	return p.cmd.ProcessState == nil && p.cmd.Process.Signal(syscall.Signal(0)) == nil
}

func (p *bProc) stop() {
	if p.cmd != nil && p.cmd.Process != nil {
		p.cmd.Process.Kill()
		p.cmd.Wait()
	}
	p.hds.Close()
	p.ncs.Close()
	if p.logf != nil {
		p.logf.Close()
		os.Remove(p.logf.Name())
	}
}

func (p *bProc) dial(carriers []string, tok string) (*websocket.Conn, error) {
	ws, _, err := p.dialRaw(carriers, tok)
	return ws, err
}

// dialRaw also returns the TCP connection, so that a client can drop the
// transport without a WebSocket close frame.
func (p *bProc) dialRaw(carriers []string, tok string) (*websocket.Conn, net.Conn, error) {
	return p.dialPath("/", carriers, tok)
}

func (p *bProc) dialPath(path string, carriers []string, tok string) (*websocket.Conn, net.Conn, error) {
	u := "ws://" + p.addr + path
	for _, c := range carriers {
		if c == "query" {
			u += "?access_token=" + tok
		}
	}
	cfg, err := websocket.NewConfig(u, "http://localhost")
	if err != nil {
		return nil, nil, err
	}
	for _, c := range carriers {
		switch c {
		case "header":
			cfg.Header.Set("Authorization", "Bearer "+tok)
		case "cookie":
			cfg.Header.Set("Cookie", "access_token="+tok)
		}
	}
	cfg.Header.Set("posemesh-client-id", "b-client")
	tc, err := net.DialTimeout("tcp", p.addr, 5*time.Second)
	if err != nil {
		return nil, nil, err
	}
	ws, err := websocket.NewClient(cfg, tc)
	if err != nil {
		tc.Close()
		return nil, nil, err
	}
	return ws, tc, nil
}

func (p *bProc) validToken() string {
	tok, _ := buildToken(tokSpec{HdrAlg: "HS256", MacAlg: "HS256", Key: p.secret, Exp: 3600, Iat: -30}, time.Now())
	return tok
}

func wsSend(ws *websocket.Conn, m proto.Message) error {
	b, _ := proto.Marshal(m)
	return websocket.Message.Send(ws, b)
}

func wsRecv(ws *websocket.Conn, d time.Duration) (Rx, error) {
	ws.SetReadDeadline(time.Now().Add(d))
	var b []byte
	if err := websocket.Message.Receive(ws, &b); err != nil {
		return Rx{}, err
	}
	return decodeBytes(b)
}

// wsUntil reads until a message of the wanted type arrives; returns the types seen.
func wsUntil(ws *websocket.Conn, want int32, d time.Duration) ([]Rx, bool) {
	var seen []Rx
	deadline := time.Now().Add(d)
	for time.Now().Before(deadline) {
		rx, err := wsRecv(ws, time.Until(deadline))
		if err != nil {
			return seen, false
		}
		if rx.T == TSyncClock {
			continue
		}
		seen = append(seen, rx)
		if rx.T == want {
			return seen, true
		}
	}
	return seen, false
}

// ---------------------------------------------------------------------------
// C15 through the binary: the routes of cmd/main.go

func TestC15Binary(t *testing.T) {
	col := NewCollector("C15", "binary", "the real binary with a fake discovery service: once with the registration completed (secret issued), once with the registration request accepted but never confirmed (no secret); generated tokens (admissible, and one or two deviations: other/empty key, alg none/foreign/mismatch, expired, not yet valid, issued in the future, 12 tamperings) in the Authorization header, the query string or a cookie; for each: a WebSocket upgrade of / must succeed exactly when the reference admits the token, and an upgrade of any other path the catch-all route serves (/relay, /v1/session, /smoke-test/, /a/b/c) must never succeed without an admissible token, and a /smoke-test trigger (POST, and OPTIONS/GET/PUT/HEAD/DELETE/PATCH with the same body) must be answered 401 without contacting the endpoint named in its body unless admitted, and a POST 200 exactly when admitted; non-trivial = distinct (token, carrier) that differs from an admissible one in one respect, or an admissible token in a non-header carrier")
	t.Cleanup(col.Write)
	for _, registered := range []bool{true, false} {
		p, err := startB("", registered)
		if err != nil {
			t.Skipf("inconclusive: %v", err)
		}
		var mu sync.Mutex
		contacted := map[string]int{}
		target := httptest.NewServer(http.HandlerFunc(func(w http.ResponseWriter, r *http.Request) {
			mu.Lock()
			contacted[r.URL.Path]++
			mu.Unlock()
			w.WriteHeader(404)
		}))
		n := envInt("VERIF_CHECKS", 60)
		i := 0
		rapid.Check(t, func(rt *rapid.T) {
			i++
			secrets := []string{"", p.secret, "c2VjcmV0LUI"}
			spec := genTokSpec(rt, secrets, p.secret, 0)
			carrier := pick(rt, "carrier", []string{"header", "header", "query", "cookie", "none"})
			tok, sound := buildToken(spec, time.Now())
			if strings.ContainsAny(tok, " ;,\"\\&#?%+") || (carrier != "header" && tok == "") {
				carrier = "header"
			}
			carried := carrier != "none" && tok != ""
			admit := registered && carried && sound && spec.Key == p.secret
			var carriers []string
			if carrier != "none" {
				carriers = []string{carrier}
			}
			// WebSocket upgrade - on the root path and on other paths the catch-all route serves
			wsPath := pick(rt, "ws_path", []string{"/", "/", "/", "/relay", "/v1/session", "/smoke-test/", "/a/b/c"})
			ws, _, err := p.dialPath(wsPath, carriers, tok)
			if err == nil {
				ws.Close()
			} else if !strings.Contains(err.Error(), "bad status") {
				rt.Skip("transport problem during the upgrade (not a refusal): inconclusive") // a refusal is an HTTP status other than 101
			}
			method := pick(rt, "method", []string{"POST", "POST", "POST", "OPTIONS", "OPTIONS", "GET", "PUT", "HEAD", "DELETE", "PATCH"})
			labels := map[string]int{fmt.Sprintf("registered_%v", registered): 1, fmt.Sprintf("admit_%v", admit): 1, "carrier_" + carrier: 1, "smoke_test_method_" + method: 1, "ws_path_" + wsPath: 1}
			oneOff := registered && carried && spec.Key == p.secret && !sound
			col.Case(fmt.Sprintf("%v/%s/%s/%s", registered, carrier, method, tok), oneOff || (admit && carrier != "header"), labels, func() any {
				return map[string]any{"registered": registered, "carrier": carrier, "spec": spec, "admitted": admit}
			})
			// (on paths other than / only "no admission without a sound token" is asserted)
			if (err == nil) != admit && (wsPath == "/" || err == nil) {
				col.Violations++
				saveCase("C15", map[string]any{"registered": registered, "carrier": carrier, "spec": spec, "path": wsPath})
				rt.Fatalf("C15 violated: WebSocket upgrade of "+wsPath+" %s although the reference %s the token (registered=%v carrier=%s spec=%+v err=%v)", map[bool]string{true: "succeeded", false: "was refused"}[err == nil], map[bool]string{true: "admits", false: "rejects"}[admit], registered, carrier, spec, err)
			}
			// smoke test trigger
			path := fmt.Sprintf("/probe-%v-%d", registered, i)
			body, _ := json.Marshal(map[string]any{"endpoint": target.URL + path, "token": "x", "timeout": 200000000})
			u := "http://" + p.addr + "/smoke-test"
			if carrier == "query" {
				u += "?access_token=" + tok
			}
			req, _ := http.NewRequest(method, u, bytes.NewReader(body))
			switch carrier {
			case "header":
				req.Header.Set("Authorization", "Bearer "+tok)
			case "cookie":
				req.Header.Set("Cookie", "access_token="+tok)
			}
			resp, err := http.DefaultClient.Do(req)
			if err != nil {
				rt.Skip("transport error talking to the binary")
			}
			resp.Body.Close()
			// an admitted trigger with a method other than POST: whether the smoke test runs is not
			// C15's business; a rejected one must be 401 whatever the method
			if (method == "POST" && (resp.StatusCode == 200) != admit) || (!admit && resp.StatusCode != 401) {
				col.Violations++
				saveCase("C15", map[string]any{"registered": registered, "carrier": carrier, "spec": spec, "method": method})
				rt.Fatalf("C15 violated: "+method+" /smoke-test answered %d although the reference %s the token (registered=%v carrier=%s spec=%+v)", resp.StatusCode, map[bool]string{true: "admits", false: "rejects"}[admit], registered, carrier, spec)
			}
			if !admit {
				time.Sleep(15 * time.Millisecond)
				mu.Lock()
				c := 0
				for k, v := range contacted {
					if strings.HasPrefix(k, path) {
						c += v
					}
				}
				mu.Unlock()
				if c != 0 {
					col.Violations++
					rt.Fatalf("C15 violated: a smoke test was run for a rejected request (endpoint contacted %d times)", c)
				}
			}
		})
		_ = n
		target.Close()
		p.stop()
	}
}

// ---------------------------------------------------------------------------
// C17 through the binary: HAGALL_FEATURE_FLAGS parsing and wiring

var bScenarioClasses = []int32{TSessionState, TJoinBcast, TLeaveBcast, TEntityAddBcast, TEntityDelBcast, TPoseBcast, TCustomBcast, TCompAddBcast, TCompUpdateBcast, TCompDelBcast}

// bScenario: A and B in one session; B does one of everything; returns the
// multiset of message types A received and the types B received.
func bScenario(p *bProc, drop map[int32]bool) (a, b []int32, err error) {
	tok := p.validToken()
	ts := func() *timestamppb.Timestamp { return timestamppb.Now() }
	wa, err := p.dial([]string{"header"}, tok)
	if err != nil {
		return nil, nil, err
	}
	defer wa.Close()
	wb, err := p.dial([]string{"header"}, tok)
	if err != nil {
		return nil, nil, err
	}
	var sid string
	note := func(dst *[]int32, rxs []Rx) {
		for _, r := range rxs {
			if r.ReqID() >= 1000 {
				continue // answers to the scenario's own polling
			}
			*dst = append(*dst, r.T)
			if jr, ok := r.M.(*hagallpb.ParticipantJoinResponse); ok && sid == "" {
				sid = jr.SessionId
			}
		}
	}
	// No step of the scenario relies on elapsed time: after every request of B the scenario waits
	// (up to 20 s) for the answer at B and for the broadcast A must receive under the flag set in
	// force; where that broadcast is disabled it polls the state instead. A missing broadcast
	// therefore shows in the final comparison, a slow machine does not.
	const patience = 20 * time.Second
	slow := false
	awaitA := func(class int32) {
		if !drop[class] {
			rx, ok := wsUntil(wa, class, patience)
			note(&a, rx)
			if !ok {
				// missing, or is the machine too busy to tell? A's own ping must come back promptly
				t0 := time.Now()
				wsSend(wa, &hagallpb.Request{Type: TPingReq, Timestamp: ts(), RequestId: 2000})
				rx, ok := wsUntil(wa, TPingResp, patience)
				note(&a, rx)
				if !ok || time.Since(t0) > 2*time.Second {
					slow = true
				}
			}
		}
	}
	wsSend(wa, &hagallpb.ParticipantJoinRequest{Type: TJoinReq, Timestamp: ts(), RequestId: 1})
	rx, ok := wsUntil(wa, TJoinResp, patience)
	if !ok {
		return nil, nil, fmt.Errorf("join not answered")
	}
	note(&a, rx)
	if !drop[TSessionState] {
		// (the session state may precede or follow the join response)
		seen := false
		for _, t := range a {
			seen = seen || t == TSessionState
		}
		if !seen {
			awaitA(TSessionState)
		}
	}
	wsSend(wa, &hagallpb.EntityComponentTypeAddRequest{Type: TTypeAddReq, Timestamp: ts(), RequestId: 2, EntityComponentTypeName: "t"})
	rx, _ = wsUntil(wa, TTypeAddResp, patience)
	note(&a, rx)
	wsSend(wa, &hagallpb.EntityComponentTypeSubscribeRequest{Type: TSubReq, Timestamp: ts(), RequestId: 3, EntityComponentTypeId: 1})
	rx, _ = wsUntil(wa, TSubResp, patience)
	note(&a, rx)
	step := func(m proto.Message, want int32, bcast int32) {
		wsSend(wb, m)
		if want >= 0 {
			rx, _ := wsUntil(wb, want, patience)
			note(&b, rx)
		}
		if bcast >= 0 {
			awaitA(bcast)
		}
	}
	pollReq := uint32(1000)
	// componentData polls (as B) until the listed data of component (1,1) is want
	componentData := func(want byte) {
		for i := 0; i < 400; i++ {
			pollReq++
			wsSend(wb, &hagallpb.EntityComponentListRequest{Type: TCompListReq, Timestamp: ts(), RequestId: pollReq, EntityComponentTypeId: 1})
			rxs, ok := wsUntil(wb, TCompListResp, patience)
			note(&b, rxs)
			if ok {
				if lr, ok2 := rxs[len(rxs)-1].M.(*hagallpb.EntityComponentListResponse); ok2 {
					for _, c := range lr.EntityComponents {
						if c.EntityId == 1 && len(c.Data) == 1 && c.Data[0] == want {
							return
						}
					}
				}
			}
			time.Sleep(10 * time.Millisecond)
		}
	}
	step(&hagallpb.ParticipantJoinRequest{Type: TJoinReq, Timestamp: ts(), RequestId: 10, SessionId: sid}, TJoinResp, TJoinBcast)
	step(&hagallpb.EntityAddRequest{Type: TEntityAddReq, Timestamp: ts(), RequestId: 11, Pose: &hagallpb.Pose{Px: 1}}, TEntityAddResp, TEntityAddBcast)
	step(&hagallpb.EntityAddRequest{Type: TEntityAddReq, Timestamp: ts(), RequestId: 12}, TEntityAddResp, TEntityAddBcast)
	step(&hagallpb.CustomMessage{Type: TCustom, Timestamp: ts(), Body: []byte("x")}, -1, TCustomBcast)
	step(&hagallpb.EntityComponentAddRequest{Type: TCompAddReq, Timestamp: ts(), RequestId: 13, EntityComponentTypeId: 1, EntityId: 1, Data: []byte{1}}, TCompAddResp, TCompAddBcast)
	// pose and component update are released by the same frame, the pose first
	step(&hagallpb.EntityUpdatePose{Type: TPose, Timestamp: ts(), EntityId: 1, Pose: &hagallpb.Pose{Px: 2}}, -1, -1)
	step(&hagallpb.EntityComponentUpdate{Type: TCompUpdate, Timestamp: ts(), EntityComponentTypeId: 1, EntityId: 1, Data: []byte{2}}, -1, -1)
	awaitA(TPoseBcast)
	awaitA(TCompUpdateBcast)
	componentData(2) // both have been processed (whatever the flags)
	step(&hagallpb.EntityComponentDeleteRequest{Type: TCompDelReq, Timestamp: ts(), RequestId: 14, EntityComponentTypeId: 1, EntityId: 1}, TCompDelResp, TCompDelBcast)
	step(&hagallpb.EntityDeleteRequest{Type: TEntityDelReq, Timestamp: ts(), RequestId: 15, EntityId: 1}, TEntityDelResp, TEntityDelBcast)
	step(&hagallpb.Request{Type: TPingReq, Timestamp: ts(), RequestId: 16}, TPingResp, -1)
	wb.Close() // leaves: entity 2 is removed, leave broadcast
	awaitA(TEntityDelBcast)
	awaitA(TLeaveBcast)
	if drop[TLeaveBcast] {
		// nothing tells A that B has gone: poll until B's entity 2 no longer exists (a component
		// cannot be added to it any more), then leave the leaver a moment to finish
		for i := 0; i < 400; i++ {
			pollReq++
			wsSend(wa, &hagallpb.EntityComponentAddRequest{Type: TCompAddReq, Timestamp: ts(), RequestId: pollReq, EntityComponentTypeId: 1, EntityId: 2, Data: []byte{9}})
			rxs, _ := wsUntilAnyOf(wa, patience, TCompAddResp, TError)
			gone := false
			for _, r := range rxs {
				if r.ReqID() == pollReq && r.T == TError {
					gone = true
				}
			}
			note(&a, rxs)
			if gone {
				break
			}
			pollReq++
			wsSend(wa, &hagallpb.EntityComponentDeleteRequest{Type: TCompDelReq, Timestamp: ts(), RequestId: pollReq, EntityComponentTypeId: 1, EntityId: 2})
			rxs, _ = wsUntilAnyOf(wa, patience, TCompDelResp, TError)
			note(&a, rxs)
			time.Sleep(10 * time.Millisecond)
		}
		time.Sleep(100 * time.Millisecond)
	}
	// A: a final ping as a barrier
	wsSend(wa, &hagallpb.Request{Type: TPingReq, Timestamp: ts(), RequestId: 4})
	rx, _ = wsUntil(wa, TPingResp, patience)
	note(&a, rx)
	if slow {
		return nil, nil, fmt.Errorf("a message did not arrive within %v and the server answered a ping slowly: inconclusive", patience)
	}
	return a, b, nil
}

// wsUntilAnyOf reads until a message of one of the wanted types arrives; returns everything seen.
func wsUntilAnyOf(ws *websocket.Conn, d time.Duration, want ...int32) ([]Rx, bool) {
	var seen []Rx
	deadline := time.Now().Add(d)
	for time.Now().Before(deadline) {
		r, err := wsRecv(ws, time.Until(deadline))
		if err != nil {
			return seen, false
		}
		seen = append(seen, r)
		for _, w := range want {
			if r.T == w {
				return seen, true
			}
		}
	}
	return seen, false
}

func sortedTypes(l []int32, drop map[int32]bool) []string {
	var out []string
	for _, t := range l {
		if drop == nil || !drop[t] {
			out = append(out, typeName(t))
		}
	}
	sort.Strings(out)
	return out
}

func TestC17Binary(t *testing.T) {
	col := NewCollector("C17", "binary", "the real binary started with HAGALL_FEATURE_FLAGS set (as a JSON array, the form the option parser honours) to a drawn subset of the ten flags plus unknown names and flag-free; one fixed two-client scenario that produces every one of the ten message classes; the multiset of message types each client receives under F must equal the flag-free multiset minus the classes F names; non-trivial = distinct flag set that names at least one class")
	t.Cleanup(col.Write)
	base, err := startB("", true)
	if err != nil {
		t.Skipf("inconclusive: %v", err)
	}
	a0, b0, err := bScenario(base, nil)
	base.stop()
	if err != nil {
		t.Skipf("inconclusive: %v", err)
	}
	have := map[int32]bool{}
	for _, x := range append(append([]int32{}, a0...), b0...) {
		have[x] = true
	}
	for _, c := range bScenarioClasses {
		if !have[c] {
			t.Skipf("inconclusive: the scenario did not produce %s on this run", typeName(c))
		}
	}
	rapid.Check(t, func(rt *rapid.T) {
		mask := uni(rt, "mask", 1024)
		if uni(rt, "single", 3) == 0 {
			mask = 1 << uni(rt, "which", 10)
		}
		flags := flagsFromMask(mask, false)
		if uni(rt, "unknown", 3) == 0 {
			flags = flagsFromMask(mask, true)
		}
		// the option parser of the binary takes list-valued options as a JSON array
		// (a comma separated value, which the option's help text suggests, is silently ignored)
		fj, _ := json.Marshal(flags)
		p, err := startB(string(fj), true)
		if err != nil {
			rt.Skip("binary did not start")
		}
		drop := map[int32]bool{}
		for _, f := range flags {
			if c, ok := flagClass[f]; ok {
				drop[c] = true
			}
		}
		a, b, err := bScenario(p, drop)
		alive := p.alive()
		p.stop()
		if err != nil {
			rt.Skip("scenario did not complete")
		}
		col.Case(fmt.Sprint(flags), mask != 0, map[string]int{fmt.Sprintf("flags_%d", popcount(mask)): 1}, func() any { return flags })
		if !alive {
			col.Violations++
			rt.Fatalf("C17 violated: the process died with flags %v", flags)
		}
		wa, ga := sortedTypes(a0, drop), sortedTypes(a, nil)
		wb, gb := sortedTypes(b0, drop), sortedTypes(b, nil)
		if fmt.Sprint(wa) != fmt.Sprint(ga) || fmt.Sprint(wb) != fmt.Sprint(gb) {
			col.Violations++
			saveCase("C17", flags)
			rt.Fatalf("C17 violated: with HAGALL_FEATURE_FLAGS=%s\n  first client received  %v\n  expected              %v\n  second client received %v\n  expected               %v", strings.Join(flags, ","), ga, wa, gb, wb)
		}
	})
}

// ---------------------------------------------------------------------------
// C19 / C08 through the binary

func TestC19Binary(t *testing.T) {
	col := NewCollector("C19", "binary", "the real binary with a harness-owned credit service: 1-6 receipts (valid triples and single-field corruptions) are submitted over a real WebSocket connection; each must be answered; after a final valid sentinel has reached the credit service, the service must have received exactly the well-formed ones, once each and unchanged; non-trivial = distinct run with a valid and a corrupted triple")
	t.Cleanup(col.Write)
	p, err := startB("", true)
	if err != nil {
		t.Skipf("inconclusive: %v", err)
	}
	defer p.stop()
	run := 0
	rapid.Check(t, func(rt *rapid.T) {
		run++
		ws, err := p.dial([]string{"header"}, p.validToken())
		if err != nil {
			rt.Skip("dial failed")
		}
		defer ws.Close()
		p.mu.Lock()
		start := len(p.receipts)
		p.mu.Unlock()
		n := 1 + uni(rt, "n", 6)
		var want []string
		valid, bad := 0, 0
		key := func(r ncsclient.ReceiptPayload) string {
			return fmt.Sprintf("%q/%x/%x", r.Receipt, r.Hash, r.Signature)
		}
		pool := []string{fmt.Sprintf("run-%d-a", run), fmt.Sprintf("run-%d-b", run)}
		for i := 0; i < n; i++ {
			rp, class := genTriple(rt, pool)
			if rp.Receipt == "" || len(rp.Hash) == 0 || len(rp.Signature) == 0 {
				continue // answered with bad request: covered by the handler-level part
			}
			if class == "valid" {
				valid++
			} else {
				bad++
			}
			if refAccept(rp) {
				want = append(want, key(rp))
			}
			wsSend(ws, &hagallpb.ReceiptRequest{Type: TReceiptReq, Timestamp: timestamppb.Now(), RequestId: uint32(100 + i), Receipt: rp.Receipt, Hash: rp.Hash, Signature: rp.Signature})
			if _, st := wsAwait(ws, 5*time.Second, TReceiptResp); st == "inconclusive" {
				rt.Skip("server too slow: inconclusive")
			} else if st != "got" {
				col.Violations++
				rt.Fatalf("C19 violated: receipt %d (%s) was not answered with RECEIPT_RESPONSE (%s)", i, class, st)
			}
		}
		sentinel := validTriple(fmt.Sprintf("sentinel-%d", run))
		wsSend(ws, &hagallpb.ReceiptRequest{Type: TReceiptReq, Timestamp: timestamppb.Now(), RequestId: 999, Receipt: sentinel.Receipt, Hash: sentinel.Hash, Signature: sentinel.Signature})
		wsUntil(ws, TReceiptResp, 5*time.Second)
		deadline := time.Now().Add(10 * time.Second)
		seen := false
		for time.Now().Before(deadline) && !seen {
			p.mu.Lock()
			for _, r := range p.receipts[start:] {
				if r.Receipt == sentinel.Receipt {
					seen = true
				}
			}
			p.mu.Unlock()
			time.Sleep(2 * time.Millisecond)
		}
		if !seen {
			// Is the machine just slow? The same connection must answer a ping promptly
			// while a well-formed receipt submitted 10 s ago has still not been forwarded.
			t0 := time.Now()
			wsSend(ws, &hagallpb.Request{Type: TPingReq, Timestamp: timestamppb.Now(), RequestId: 1000})
			_, ok := wsUntil(ws, TPingResp, 5*time.Second)
			rtt := time.Since(t0)
			if ok && rtt < time.Second {
				time.Sleep(5 * time.Second)
				p.mu.Lock()
				for _, r := range p.receipts[start:] {
					if r.Receipt == sentinel.Receipt {
						seen = true
					}
				}
				p.mu.Unlock()
				if !seen {
					col.Violations++
					rt.Fatalf("C19 violated: a well-formed receipt that was accepted 15 s ago has not been forwarded to the credit service although the server answers pings within %v", rtt.Round(time.Millisecond))
				}
			} else {
				rt.Skip("sentinel did not arrive in time and the server is slow: inconclusive")
			}
		}
		// the forwards run concurrently: earlier ones may land after the sentinel (bounded wait that
		// ends as soon as they are all there), duplicates would follow shortly
		for until := time.Now().Add(15 * time.Second); time.Now().Before(until); time.Sleep(5 * time.Millisecond) {
			p.mu.Lock()
			n := len(p.receipts[start:])
			p.mu.Unlock()
			if n >= len(want)+1 {
				break
			}
		}
		time.Sleep(100 * time.Millisecond)
		var got []string
		p.mu.Lock()
		for _, r := range p.receipts[start:] {
			if r.Receipt != sentinel.Receipt {
				got = append(got, key(r))
			}
		}
		p.mu.Unlock()
		sort.Strings(got)
		sort.Strings(want)
		col.Case(fmt.Sprint(want, run), valid > 0 && bad > 0, map[string]int{"valid": valid, "corrupted": bad}, func() any { return map[string]int{"valid": valid, "corrupted": bad} })
		if fmt.Sprint(got) != fmt.Sprint(want) {
			col.Violations++
			rt.Fatalf("C19 violated: the credit service received %d receipt(s), exactly the %d well-formed ones were expected once each:\n  received %.300v\n  expected %.300v", len(got), len(want), got, want)
		}
	})
}

func TestC08Binary(t *testing.T) {
	col := NewCollector("C08", "binary", "the real binary: a hostile client (joined or not, owning entities or not) writes a drawn mix of undecodable frames, text frames, frames without timestamp, typed bodies that do not decode, messages with absent sub-messages or non-finite/huge coordinates, pipelined bursts of failing requests, then closes or just drops the TCP connection; afterwards the OS process must still run, a witness in the same session must have received the leave (and entity delete) broadcasts and still get its pings answered, and a fresh connection must be served; non-trivial = every distinct drawn mix")
	t.Cleanup(col.Write)
	p, err := startB("", true)
	if err != nil {
		t.Skipf("inconclusive: %v", err)
	}
	defer p.stop()
	tok := p.validToken()
	rapid.Check(t, func(rt *rapid.T) {
		witness, err := p.dial([]string{"header"}, tok)
		if err != nil {
			rt.Skip("dial failed")
		}
		defer witness.Close()
		ts := func() *timestamppb.Timestamp { return timestamppb.Now() }
		wsSend(witness, &hagallpb.ParticipantJoinRequest{Type: TJoinReq, Timestamp: ts(), RequestId: 1})
		rx, ok := wsUntil(witness, TJoinResp, 20*time.Second)
		if !ok {
			// slow machine, or are admitted connections not served at all? the same process must
			// answer plain HTTP promptly while the join has been waiting for 20 s
			t0 := time.Now()
			resp, err := http.Get("http://" + p.addr + "/version")
			if err == nil {
				resp.Body.Close()
			}
			if err == nil && time.Since(t0) < time.Second && p.alive() {
				col.Violations++
				rt.Fatalf("C08 violated: the join request of an admitted connection has not been answered for 20 s although the server answers HTTP within %v", time.Since(t0).Round(time.Millisecond))
			}
			rt.Skip("witness join not answered and the server is slow: inconclusive")
		}
		sid := rx[len(rx)-1].M.(*hagallpb.ParticipantJoinResponse).SessionId
		h, htcp, err := p.dialRaw([]string{"header"}, tok)
		if err != nil {
			rt.Skip("dial failed")
		}
		joined := uni(rt, "joined", 3) != 0
		owns := false
		var hpid uint32
		if joined {
			wsSend(h, &hagallpb.ParticipantJoinRequest{Type: TJoinReq, Timestamp: ts(), RequestId: 2, SessionId: sid})
			if rx, ok := wsUntil(h, TJoinResp, 5*time.Second); ok {
				hpid = rx[len(rx)-1].M.(*hagallpb.ParticipantJoinResponse).ParticipantId
			}
			if uni(rt, "owns", 2) == 0 {
				owns = true
				wsSend(h, &hagallpb.EntityAddRequest{Type: TEntityAddReq, Timestamp: ts(), RequestId: 3})
				wsUntil(h, TEntityAddResp, 5*time.Second)
			}
		}
		ex := &Exec{}
		var desc []string
		k := 1 + uni(rt, "actions", 5)
		for i := 0; i < k; i++ {
			switch a := uni(rt, "action", 7); a {
			case 0:
				websocket.Message.Send(h, rapid.SliceOfN(rapid.Byte(), 0, 24).Draw(rt, "garbage"))
				desc = append(desc, "garbage")
			case 1:
				websocket.Message.Send(h, "text")
				desc = append(desc, "text")
			case 2:
				websocket.Message.Send(h, ex.badTyped(uni(rt, "bad", 4)))
				desc = append(desc, "bad_typed")
			case 3:
				var buf []byte
				n := 9 + uni(rt, "burst", 56)
				for j := 0; j < n; j++ {
					buf = append(buf, wsFrame(ex.badTyped(uni(rt, "bk", 4)))...)
				}
				rawWrite(h, buf)
				desc = append(desc, fmt.Sprintf("burst_%d", n))
			case 4:
				wsSend(h, &hagallpb.EntityUpdatePose{Type: TPose, Timestamp: ts(), EntityId: 1})
				desc = append(desc, "pose_without_pose")
			case 5:
				b, _ := proto.Marshal(&hagallpb.Msg{Type: 300, Timestamp: ts()})
				websocket.Message.Send(h, append(b, 0x22, 0x00)) // quad sample with an empty quad
				desc = append(desc, "quad_without_points")
			default:
				b, _ := proto.Marshal(&hagallpb.Msg{Type: 303, Timestamp: ts()})
				// region request: min.x = NaN, max absent
				websocket.Message.Send(h, append(b, 0x1a, 0x05, 0x0d, 0x00, 0x00, 0xc0, 0x7f, 0xca, 0x53, 0x01))
				desc = append(desc, "region_nan")
			}
		}
		if uni(rt, "abort", 2) == 0 {
			htcp.Close()
			desc = append(desc, "abort")
		} else {
			h.Close()
			desc = append(desc, "close")
		}
		col.Case(fmt.Sprint(joined, owns, desc), true, map[string]int{"joined": b2i(joined), "owns_entity": b2i(owns)}, func() any { return desc })
		fail := func(f string, a ...any) {
			col.Violations++
			saveCase("C08", map[string]any{"joined": joined, "owns": owns, "actions": desc})
			rt.Fatalf("C08 violated: "+f+" (joined=%v owns=%v actions=%v)", append(a, joined, owns, desc)...)
		}
		if joined && hpid != 0 {
			rxs, ok := wsUntil(witness, TLeaveBcast, 25*time.Second)
			if !ok {
				fail("the witness was not told about the departure of the hostile participant %d (ghost)", hpid)
			}
			if owns {
				found := false
				for _, r := range rxs {
					if r.T == TEntityDelBcast {
						found = true
					}
				}
				if !found {
					fail("the witness was not told that the hostile participant's entity was removed")
				}
			}
		}
		wsSend(witness, &hagallpb.Request{Type: TPingReq, Timestamp: ts(), RequestId: 77})
		if _, ok := wsUntil(witness, TPingResp, 25*time.Second); !ok {
			fail("the witness no longer gets its pings answered")
		}
		if !p.alive() {
			fail("the server process died")
		}
		fresh, err := p.dial([]string{"header"}, tok)
		if err != nil {
			fail("a fresh connection is not served any more: %v", err)
		}
		wsSend(fresh, &hagallpb.Request{Type: TPingReq, Timestamp: ts(), RequestId: 78})
		if _, ok := wsUntil(fresh, TPingResp, 25*time.Second); !ok {
			fail("a fresh connection does not get its ping answered")
		}
		fresh.Close()
	})
}

func rawWrite(ws *websocket.Conn, b []byte) {
	// the payload type of a raw write is not framed again when written through the hijacked buffer:
	// x/net/websocket offers no raw access, so the frames are sent one by one without waiting instead
	for len(b) > 0 {
		// parse our own frame: 0x82, len, mask(4), payload
		n := int(b[1] & 0x7f)
		hdr := 2
		if n == 126 {
			n = int(b[2])<<8 | int(b[3])
			hdr = 4
		}
		payload := make([]byte, n)
		for i := 0; i < n; i++ {
			payload[i] = b[hdr+4+i] ^ b[hdr+i%4]
		}
		websocket.Message.Send(ws, payload)
		b = b[hdr+4+n:]
	}
}


// ---------------------------------------------------------------------------
// C08 through the binary: a client that goes silent is dropped after the
// configured idle timeout (HAGALL_CLIENT_IDLE_TIMEOUT reaches the handler), a
// client that keeps talking is not. Real time; generous slack; only the
// direction "silent for more than timeout + slack and still there" fails.

func TestC08BinaryIdle(t *testing.T) {
	col := NewCollector("C08", "binidle", "the real binary started with HAGALL_CLIENT_IDLE_TIMEOUT = 700/1000/1500 ms (drawn): a witness that pings every 200 ms and a client that joins the witness's session, optionally adds an entity, sends 0-3 further requests and then goes silent; the silent client's departure (leave broadcast, entity delete) must reach the witness and its TCP connection must be closed by the server within timeout + 3 s, the witness itself must never be dropped and must have all pings answered; non-trivial = every distinct drawn case")
	t.Cleanup(col.Write)
	rapid.Check(t, func(rt *rapid.T) {
		idle := pick(rt, "idle_ms", []int{700, 1000, 1500})
		owns := uni(rt, "owns", 2) == 0
		extra := uni(rt, "extra_requests", 4)
		p, err := startB("", true, fmt.Sprintf("HAGALL_CLIENT_IDLE_TIMEOUT=%dms", idle))
		if err != nil {
			rt.Skip("inconclusive: " + err.Error())
		}
		defer p.stop()
		tok := p.validToken()
		ts := func() *timestamppb.Timestamp { return timestamppb.Now() }
		witness, err := p.dial([]string{"header"}, tok)
		if err != nil {
			rt.Skip("dial failed")
		}
		defer witness.Close()
		wsSend(witness, &hagallpb.ParticipantJoinRequest{Type: TJoinReq, Timestamp: ts(), RequestId: 1})
		rx, ok := wsUntil(witness, TJoinResp, 5*time.Second)
		if !ok {
			rt.Skip("witness join not answered")
		}
		sid := rx[len(rx)-1].M.(*hagallpb.ParticipantJoinResponse).SessionId
		silent, tcp, err := p.dialRaw([]string{"header"}, tok)
		if err != nil {
			rt.Skip("dial failed")
		}
		defer tcp.Close()
		wsSend(silent, &hagallpb.ParticipantJoinRequest{Type: TJoinReq, Timestamp: ts(), RequestId: 2, SessionId: sid})
		rx, ok = wsUntil(silent, TJoinResp, 5*time.Second)
		if !ok {
			rt.Skip("join not answered")
		}
		spid := rx[len(rx)-1].M.(*hagallpb.ParticipantJoinResponse).ParticipantId
		if owns {
			wsSend(silent, &hagallpb.EntityAddRequest{Type: TEntityAddReq, Timestamp: ts(), RequestId: 3})
			wsUntil(silent, TEntityAddResp, 5*time.Second)
		}
		for i := 0; i < extra; i++ {
			wsSend(silent, &hagallpb.Request{Type: TPingReq, Timestamp: ts(), RequestId: uint32(10 + i)})
			wsUntil(silent, TPingResp, 2*time.Second)
		}
		silentSince := time.Now()
		// the silent client keeps READING (it is idle, not stalled): note when the server closes it
		closed := make(chan time.Time, 1)
		go func() {
			for {
				var b []byte
				if err := websocket.Message.Receive(silent, &b); err != nil {
					closed <- time.Now()
					return
				}
			}
		}()
		deadline := silentSince.Add(time.Duration(idle)*time.Millisecond + 3*time.Second)
		gotLeave, gotDelete, pings, pongs := false, !owns, 0, 0
		for time.Now().Before(deadline) && !(gotLeave && gotDelete) {
			pings++
			wsSend(witness, &hagallpb.Request{Type: TPingReq, Timestamp: ts(), RequestId: uint32(1000 + pings)})
			until := time.Now().Add(200 * time.Millisecond)
			for time.Now().Before(until) {
				r, err := wsRecv(witness, time.Until(until))
				if err != nil {
					if ne, ok := err.(net.Error); ok && ne.Timeout() {
						break
					}
					if err != io.EOF && !strings.Contains(err.Error(), "reset") && !strings.Contains(err.Error(), "closed") {
						continue // a message this client does not decode: not a lost connection
					}
					col.Violations++
					saveCase("C08", map[string]any{"idle_ms": idle, "owns": owns, "extra": extra})
					rt.Fatalf("C08 violated: the witness, which pings every 200 ms, lost its connection (%v) with idle timeout %d ms", err, idle)
				}
				switch m := r.M.(type) {
				case *hagallpb.ParticipantLeaveBroadcast:
					if m.ParticipantId == spid {
						gotLeave = true
					}
				case *hagallpb.EntityDeleteBroadcast:
					gotDelete = true
				}
				if r.T == TPingResp {
					pongs++
				}
			}
		}
		col.Case(fmt.Sprintf("%d/%v/%d", idle, owns, extra), true, map[string]int{fmt.Sprintf("idle_%dms", idle): 1, "owns_entity": b2i(owns)}, func() any {
			return map[string]any{"idle_ms": idle, "owns": owns, "extra": extra, "dropped_after_ms": time.Since(silentSince).Milliseconds()}
		})
		if (!gotLeave || !gotDelete) && pongs < pings/2 {
			rt.Skip("the witness's pings were answered too slowly to trust the clock: inconclusive")
		}
		if !gotLeave || !gotDelete {
			col.Violations++
			saveCase("C08", map[string]any{"idle_ms": idle, "owns": owns, "extra": extra})
			rt.Fatalf("C08 violated: a client silent for %v with HAGALL_CLIENT_IDLE_TIMEOUT=%dms is still in its session (leave relayed: %v, entity delete relayed: %v)", time.Since(silentSince).Round(time.Millisecond), idle, gotLeave, gotDelete)
		}
		select {
		case <-closed:
		case <-time.After(15 * time.Second):
			col.Violations++
			rt.Fatalf("C08 violated: the idle client was removed from its session but its connection is still open 15 s later")
		}
		if pongs < pings/2 {
			rt.Skip("the witness's pings were answered too slowly to trust the clock: inconclusive")
		}
	})
}

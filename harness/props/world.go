package props

import (
	"encoding/base64"
	"context"
	"crypto/ecdsa"
	"fmt"
	"runtime/debug"
	"testing/synctest"
	"time"

	"github.com/aukilabs/hagall-common/ncsclient"
	hwebsocket "github.com/aukilabs/hagall-common/websocket"
	"github.com/aukilabs/hagall/featureflag"
	"github.com/aukilabs/hagall/models"
	"github.com/aukilabs/hagall/modules"
	"github.com/aukilabs/hagall/modules/dagaz"
	"github.com/aukilabs/hagall/modules/odal"
	"github.com/aukilabs/hagall/modules/vikja"
	hws "github.com/aukilabs/hagall/websocket"
	"github.com/ethereum/go-ethereum/crypto"
	"google.golang.org/protobuf/proto"
)

// Driver is what the script executor needs from a way of exercising the server.
type Driver interface {
	Connect(slot int)
	Send(slot int, p proto.Message)
	SendBytes(slot int, b []byte)
	Close(slot int)
	Advance(d time.Duration) // let fake time pass, then handle what the frames released
	Frame() time.Duration
	Inbox(slot int) []Rx
	Ended(slot int) bool
	Panics() []string
	Store() *models.SessionStore
	RH(slot int) *hws.RealtimeHandler
	ReceiptQueue() chan ncsclient.ReceiptPayload
	Shutdown()
	Name() string
	ClientID(slot int) string
	Leaks() []string // after every connection was closed: what is still around
}

type testDS struct{}

func (testDS) ServerID() string { return "vrf" }

var serverKey = func() *ecdsa.PrivateKey {
	k, err := crypto.HexToECDSA("4c0883a69102937d6231471b5dbb6204fe5129617082792ae468d01a3f362318")
	if err != nil {
		panic(err)
	}
	return k
}()

func newModules(cfg Config) []modules.Module {
	var ms []modules.Module
	for _, m := range cfg.Modules {
		switch m {
		case "vikja":
			ms = append(ms, &vikja.Module{})
		case "odal":
			ms = append(ms, &odal.Module{})
		case "dagaz":
			ms = append(ms, &dagaz.Module{})
		}
	}
	return ms
}

type schedIface interface {
	hwebsocket.Dispatcher
	hwebsocket.Consumer
	Close()
}

// ---------------------------------------------------------------------------
// Driver H: handler level. One RealtimeHandler (with its own module instances)
// and one real hagall-common scheduler per connection; each message goes
// Dispatch -> (frame) -> the real handler.handleMessage; an error from the
// handler is followed by HandleDisconnect exactly as websocket.Handle does.
// Must run inside a synctest bubble: the sessions' real frame workers tick on
// the bubble's fake clock.

type hConn struct {
	rh    *hws.RealtimeHandler
	sched schedIface
	inbox []Rx
	ended bool
	ghost bool // ended by a panic: HandleDisconnect never ran (as under net/http)
}

func (c *hConn) Send(p hwebsocket.ProtoMsg) {
	msg, err := hwebsocket.MsgFromProto(p)
	if err != nil {
		return
	}
	c.SendMsg(msg)
}

func (c *hConn) SendMsg(msg hwebsocket.Msg) {
	rx, err := decodeMsg(msg)
	if err != nil {
		rx.T = -2
	}
	rx.Seq = len(c.inbox)
	c.inbox = append(c.inbox, rx)
}

type HWorld struct {
	cfg      Config
	store    *models.SessionStore
	receipts chan ncsclient.ReceiptPayload
	conns    map[int]*hConn
	all      []*hConn
	panics   []string
	frame    time.Duration
	sessions map[*models.Session]bool
	FlagsFor func(slot int) []string // optional per-connection flag override
	NoBubble bool                    // not inside a synctest bubble (scheduled driver): never wait on the fake clock
}

func NewHWorld(cfg Config) *HWorld {
	capn := cfg.ReceiptCap
	if capn <= 0 {
		capn = 128
	}
	fr := time.Duration(cfg.FrameMs) * time.Millisecond
	if fr <= 0 {
		fr = 15 * time.Millisecond
	}
	return &HWorld{
		cfg:      cfg,
		store:    &models.SessionStore{DiscoveryService: testDS{}},
		receipts: make(chan ncsclient.ReceiptPayload, capn),
		conns:    map[int]*hConn{},
		frame:    fr,
		sessions: map[*models.Session]bool{},
	}
}

func (w *HWorld) Name() string                                { return "H" }
func (w *HWorld) ClientID(int) string                         { return "" }
func (w *HWorld) Store() *models.SessionStore                 { return w.store }
func (w *HWorld) ReceiptQueue() chan ncsclient.ReceiptPayload { return w.receipts }
func (w *HWorld) Panics() []string                            { return w.panics }
func (w *HWorld) Inbox(slot int) []Rx                         { return w.conns[slot].inbox }
func (w *HWorld) Ended(slot int) bool                         { c := w.conns[slot]; return c == nil || c.ended }
func (w *HWorld) RH(slot int) *hws.RealtimeHandler {
	if c := w.conns[slot]; c != nil {
		return c.rh
	}
	return nil
}

func (w *HWorld) Connect(slot int) {
	flags := w.cfg.Flags
	if w.FlagsFor != nil {
		flags = w.FlagsFor(slot)
	}
	c := &hConn{
		rh: &hws.RealtimeHandler{
			ClientSyncClockInterval: time.Hour,
			ClientIdleTimeout:       time.Hour,
			FrameDuration:           w.frame,
			Sessions:                w.store,
			Modules:                 newModules(w.cfg),
			FeatureFlags:            featureflag.New(flags),
			ReceiptChan:             w.receipts,
			PrivateKey:              serverKey,
		},
		sched: hwebsocket.NewScheduler(),
	}
	// clients of different applications share a server: the app key (taken from the access token
	// in production) labels the session metrics
	hws.VerifSetAppKey(c.rh, appKeyOf(slot))
	w.conns[slot] = c
	w.all = append(w.all, c)
}

// appKeyOf: connections 0,3,6.. carry no app key, the others one of two.
func appKeyOf(slot int) string { return []string{"", "app-A", "app-B"}[slot%3] }

// appKeyToken is an access token as GetAppKeyFromHagallUserToken reads it (claims only; the
// wire driver's handshake does not verify tokens).
func appKeyToken(appKey string) string {
	hdr := base64.RawURLEncoding.EncodeToString([]byte(`{"alg":"HS256","typ":"JWT"}`))
	pl := base64.RawURLEncoding.EncodeToString([]byte(fmt.Sprintf(`{"app_key":%q,"iss":"HDS"}`, appKey)))
	return hdr + "." + pl + "." + base64.RawURLEncoding.EncodeToString([]byte("unverified"))
}

func (w *HWorld) Send(slot int, p proto.Message) {
	b, err := proto.Marshal(p)
	if err != nil {
		panic(err)
	}
	w.SendBytes(slot, b)
}

func (w *HWorld) SendBytes(slot int, b []byte) {
	c := w.conns[slot]
	if c == nil || c.ended {
		return
	}
	msg, ok := bytesToWire(b)
	if !ok {
		// hwebsocket.Receive fails (undecodable or no timestamp): the
		// receiving goroutine reports the error and the connection ends.
		w.disconnect(c, fmt.Errorf("receive failed"))
		return
	}
	if err := w.guard(c, func() error { return c.sched.Dispatch(context.Background(), msg) }); err != nil {
		w.disconnect(c, err)
		return
	}
	w.drain(c)
	w.NoteSession(c.rh.CurrentSession())
}

// guard runs f and converts a panic into a recorded event. Under net/http a
// panic in the connection goroutine is swallowed, the deferred cleanup of
// Handle runs, but HandleDisconnect is never called.
func (w *HWorld) guard(c *hConn, f func() error) (err error) {
	defer func() {
		if r := recover(); r != nil {
			w.panics = append(w.panics, fmt.Sprintf("%v\n%s", r, firstFrames(debug.Stack())))
			c.ended = true
			c.ghost = true
			err = nil
		}
	}()
	return f()
}

func firstFrames(st []byte) string {
	n := 0
	for i, b := range st {
		if b == '\n' {
			n++
			if n == 14 {
				return string(st[:i])
			}
		}
	}
	return string(st)
}

func (w *HWorld) drain(c *hConn) {
	for !c.ended {
		select {
		case msg := <-c.sched.Messages():
			err := w.guard(c, func() error {
				return hws.VerifHandleMessage(context.Background(), c.rh, c.sched, msg, c)
			})
			if err != nil {
				w.disconnect(c, err)
			}
		default:
			return
		}
	}
}

func (w *HWorld) disconnect(c *hConn, err error) {
	if c.ended {
		return
	}
	c.ended = true
	w.guard(c, func() error { c.rh.HandleDisconnect(err); return nil })
}

func (w *HWorld) Close(slot int) {
	c := w.conns[slot]
	if c == nil || c.ended {
		return
	}
	w.disconnect(c, fmt.Errorf("client closed"))
}

// Advance lets fake time pass (the sessions' real frame workers tick on
// it), waits until everything is blocked again, then handles what the frames
// released, connection by connection.
func (w *HWorld) Advance(d time.Duration) {
	if w.NoBubble {
		return
	}
	time.Sleep(d)
	synctest.Wait()
	for _, c := range w.all {
		w.drain(c)
	}
}

func (w *HWorld) Frame() time.Duration { return w.frame }

// NoteSession remembers a session object so that Shutdown can stop its worker.
func (w *HWorld) NoteSession(s *models.Session) {
	if s != nil {
		w.sessions[s] = true
	}
}

// Shutdown ends everything so that no goroutine outlives the bubble.
func (w *HWorld) Shutdown() {
	for _, c := range w.all {
		if !c.ended {
			w.disconnect(c, fmt.Errorf("shutdown"))
		}
		if s := c.rh.CurrentSession(); s != nil {
			w.sessions[s] = true
		}
	}
	for s := range w.sessions {
		s.Close()
	}
	if !w.NoBubble {
		synctest.Wait()
	}
}

// Leaks: after all connections ended nothing of them may remain.
func (w *HWorld) Leaks() []string {
	var out []string
	if !w.NoBubble {
		synctest.Wait()
	}
	if n := countGoroutines("models.(*Session).StartDispatchFrames"); n != 0 {
		out = append(out, fmt.Sprintf("%d session frame worker(s) still running", n))
	}
	return out
}

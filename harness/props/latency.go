package props

import (
	"fmt"
	"sort"
	"time"

	"github.com/aukilabs/hagall-common/messages/hagallpb"
	"github.com/ethereum/go-ethereum/common/hexutil"
	"github.com/ethereum/go-ethereum/crypto"
	"golang.org/x/crypto/sha3"
	"google.golang.org/protobuf/proto"
)

// latRun is the reference state of one signed-latency measurement.
type latRun struct {
	req      uint32
	n        uint32
	wallet   string
	uuid     string
	issued   []uint32
	answered map[uint32]bool
	out      uint32 // outstanding ping id
	hasOut   bool
	sentAt   time.Time
	lats     []int64 // measured latency of every answered round, microseconds
	done     bool
}

const (
	PingOutstanding = "outstanding"
	PingAnswered    = "answered"
	PingUnknown     = "unknown"
)

func (e *Exec) doLatency(mc *MConn, st Step, req uint32) {
	e.D.Send(mc.Slot, &hagallpb.SignedLatencyRequest{Type: TSignedLatencyReq, Timestamp: e.reqTS(), RequestId: req, IterationCount: st.Count, WalletAddress: st.Name})
	e.collect()
	e.stepTags = "C18"
	if !mc.joined() {
		e.label("latency_not_joined")
		e.expectError(mc, req, "C04,C18", "signed latency request from a connection that is in no session", cUnauth, cNotJoin)
		return
	}
	if st.Count < 3 || st.Count > 50 {
		e.label("latency_bad_count")
		e.expectError(mc, req, "C04,C18", fmt.Sprintf("signed latency request for %d rounds", st.Count), cBad)
		e.unexpectedEnd(mc, "C04,C08")
		return
	}
	if st.Name == "" {
		e.label("latency_no_wallet")
		e.expectError(mc, req, "C04,C18", "signed latency request without wallet address", cBad)
		e.unexpectedEnd(mc, "C04,C08")
		return
	}
	if old := e.lat[mc.Slot]; old != nil && !old.done {
		e.label("latency_restart")
	}
	e.label("latency_start")
	run := &latRun{req: req, n: st.Count, wallet: st.Name, uuid: mc.Sess.UUID, answered: map[uint32]bool{}}
	e.lat[mc.Slot] = run
	e.expectPing(mc, run)
	e.unexpectedEnd(mc, "C04,C08")
}

func (e *Exec) expectPing(mc *MConn, run *latRun) {
	rx, ok := e.take(mc.Slot, isType(TPingReq))
	if !ok {
		e.fail("C18", "measurement %d: no PING_REQUEST issued (%d of %d rounds answered): %v", run.req, len(run.answered), run.n, e.delta[mc.Slot])
		return
	}
	id := rx.ReqID()
	for _, old := range run.issued {
		if old == id {
			e.fail("C18", "measurement %d: ping id %d issued twice", run.req, id)
		}
	}
	run.issued = append(run.issued, id)
	run.out, run.hasOut = id, true
	run.sentAt = time.Now()
}

func (e *Exec) doPingResp(mc *MConn, st Step) {
	run := e.lat[mc.Slot]
	var id uint32
	kind := st.Ent.Kind
	switch {
	case kind == PingOutstanding && run != nil && run.hasOut && !run.done:
		id = run.out
	case kind == PingAnswered && run != nil && len(run.answered) > 0:
		var l []uint32
		for a := range run.answered {
			l = append(l, a)
		}
		sort.Slice(l, func(i, j int) bool { return l[i] < l[j] })
		id = l[st.Ent.N%len(l)]
	default:
		id = 4000000000 + uint32(st.Ent.N%1000)
		kind = PingUnknown
	}
	d := time.Duration(st.TNano) * time.Microsecond
	if d < time.Microsecond {
		d = time.Microsecond
	}
	e.advance(d)
	e.after(nil)
	e.traceStep = 4*e.stepIdx + 2
	e.actorBefore = mc.Sess
	if len(e.Viol) > 0 {
		return
	}
	if mc.Ended || e.D.Ended(mc.Slot) {
		return
	}
	e.D.Send(mc.Slot, &hagallpb.Response{Type: TPingResp, Timestamp: e.reqTS(), RequestId: id})
	e.collect()
	e.stepTags = "C18"
	if !mc.joined() {
		e.label("ping_resp_not_joined")
		e.expectError(mc, id, "C04,C18", "ping response from a connection that is in no session", cUnauth, cNotJoin)
		return
	}
	valid := run != nil && !run.done && run.hasOut && id == run.out
	if !valid {
		switch {
		case run != nil && run.done:
			e.label("ping_replay_after_completion")
		case run != nil && run.answered[id]:
			e.label("ping_answered_again")
		default:
			e.label("ping_unknown_id")
		}
		if _, ok := e.take(mc.Slot, isResp(TError, id)); !ok {
			e.fail("C18,C04", "ping response with id %d, which is unknown or was already answered, was not refused: %v", id, e.delta[mc.Slot])
		}
		// it must not advance the measurement: no further ping, no result
		e.unexpectedEnd(mc, "C18,C08")
		return
	}
	e.label("ping_answered")
	run.answered[id] = true
	run.hasOut = false
	run.lats = append(run.lats, time.Since(run.sentAt).Microseconds())
	if uint32(len(run.answered)) < run.n {
		e.expectPing(mc, run)
		e.unexpectedEnd(mc, "C18,C08")
		return
	}
	run.done = true
	rx, ok := e.take(mc.Slot, isResp(TSignedLatencyResp, run.req))
	if !ok {
		e.fail("C18,C04", "measurement %d: all %d rounds answered but no SIGNED_LATENCY_RESPONSE: %v", run.req, run.n, e.delta[mc.Slot])
		return
	}
	e.label("latency_complete")
	e.verifyLatency(mc, run, rx.M.(*hagallpb.SignedLatencyResponse))
	e.unexpectedEnd(mc, "C18,C08")
}

func keccak(b []byte) []byte {
	h := sha3.NewLegacyKeccak256()
	h.Write(b)
	return h.Sum(nil)
}

func (e *Exec) verifyLatency(mc *MConn, run *latRun, resp *hagallpb.SignedLatencyResponse) {
	sig, err := hexutil.Decode(resp.Signature)
	if err != nil || len(sig) != 65 {
		e.fail("C18", "signature %q is not a 65-byte hex string", resp.Signature)
		return
	}
	pub, err := crypto.SigToPub(keccak(resp.Data), sig)
	if err != nil {
		e.fail("C18", "signature does not recover a key: %v", err)
		return
	}
	if crypto.PubkeyToAddress(*pub) != crypto.PubkeyToAddress(serverKey.PublicKey) {
		e.fail("C18", "signature over the returned data recovers %s, the server's wallet is %s", crypto.PubkeyToAddress(*pub), crypto.PubkeyToAddress(serverKey.PublicKey))
		return
	}
	var d hagallpb.LatencyData
	if err := proto.Unmarshal(resp.Data, &d); err != nil {
		e.fail("C18", "returned data does not decode: %v", err)
		return
	}
	if d.ClientId != e.D.ClientID(mc.Slot) {
		e.fail("C18", "data names client %q, the requester is %q", d.ClientId, e.D.ClientID(mc.Slot))
	}
	if d.SessionId != run.uuid {
		e.fail("C18", "data names session %q, the session UUID is %q", d.SessionId, run.uuid)
	}
	if d.WalletAddress != run.wallet {
		e.fail("C18", "data names wallet %q, requested %q", d.WalletAddress, run.wallet)
	}
	if d.IterationCount != run.n {
		e.fail("C18", "data reports %d rounds, %d were requested", d.IterationCount, run.n)
	}
	got := append([]uint32{}, d.PingRequestIds...)
	want := append([]uint32{}, run.issued...)
	sort.Slice(got, func(i, j int) bool { return got[i] < got[j] })
	sort.Slice(want, func(i, j int) bool { return want[i] < want[j] })
	if fmt.Sprint(got) != fmt.Sprint(want) {
		e.fail("C18", "data lists ping ids %v, the server issued %v", got, want)
	}
	if uint32(len(run.issued)) != run.n {
		e.fail("C18", "%d pings were issued for %d rounds", len(run.issued), run.n)
	}
	if !(0 <= d.Min && d.Min <= d.Mean && d.Mean <= d.Max) {
		e.fail("C18", "statistics inconsistent: min=%v mean=%v max=%v", d.Min, d.Mean, d.Max)
	}
	if d.P95 < d.Min || d.P95 > d.Max {
		e.fail("C18", "p95=%v outside [min=%v, max=%v]", d.P95, d.Min, d.Max)
	}
	if d.Last < d.Min || d.Last > d.Max {
		e.fail("C18", "last=%v outside [min=%v, max=%v]", d.Last, d.Min, d.Max)
	}
	if final := float32(run.lats[len(run.lats)-1]); d.Last != final {
		e.fail("C18", "last=%v but the final round took %v microseconds (rounds: %v)", d.Last, final, run.lats)
	}
	distinct := map[int64]bool{}
	for _, l := range run.lats {
		distinct[l] = true
	}
	if len(distinct) >= 3 {
		e.label("latency_3_distinct_delays")
	}
}

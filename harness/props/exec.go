package props

import (
	"bytes"
	"fmt"
	"sort"
	"strings"
	"time"

	"github.com/aukilabs/hagall-common/messages/dagazpb"
	"github.com/aukilabs/hagall-common/messages/hagallpb"
	"github.com/aukilabs/hagall-common/messages/odalpb"
	"github.com/aukilabs/hagall-common/messages/vikjapb"
	"google.golang.org/protobuf/proto"
	"google.golang.org/protobuf/types/known/timestamppb"
)

type Violation struct {
	Tags string `json:"tags"`
	Step int    `json:"step"`
	Msg  string `json:"msg"`
}

func (v Violation) Has(prop string) bool {
	for _, t := range strings.Split(v.Tags, ",") {
		if t == prop {
			return true
		}
	}
	return false
}

func (v Violation) String() string { return fmt.Sprintf("[%s] step %d: %s", v.Tags, v.Step, v.Msg) }

// Exclusions: classes of cases that are rewritten because a listed known
// finding covers them (see known_findings.json). Each rewrite is counted.
type Exclusions struct {
	PendingAcrossJoin bool // D11: updates pending in the per-connection dispatcher survive a session change

	// Not a finding: when two members update the same component within one frame, which value
	// stays is unspecified (the session runs its members' frame handlers in map order). The
	// reference model adopts the server's choice; the DIFFERENTIAL tests (C03, C17) execute the
	// same history on several servers and need one outcome, so they let a frame pass before the
	// second member's update. Counted as label "frame_inserted_before_conflicting_component_update".
	SerialiseCompConflicts bool
}

type Exec struct {
	D   Driver
	Rec *recDriver // records the concrete trace of the run
	Cfg Config
	M   *Model
	Ex  Exclusions

	cur       map[int]int
	delta     map[int][]Rx
	nextReq   uint32
	stepIdx   int
	traceStep int // finer-grained step counter for the recorded trace: 4*stepIdx + sub-step
	Viol      []Violation
	stop      bool

	Excluded                int
	Labels                  map[string]int
	Registry                bool    // also check session gauge and frame workers (C07)
	Gauge0                  float64 // gauge value when the case started
	lat                     map[int]*latRun
	G0                      int           // goroutines in the process when the case started
	timePassed              bool          // a frame / delay elapsed since the frame workers were last counted
	Idle                    time.Duration // idle timeout the server was configured with (0 = not modelled)
	sentAt                  time.Time
	optional                map[int]bool                  // recipients that may or may not get the relays of the current event
	applied                 map[int]map[int32]int         // slot -> broadcast type -> count applied to its view
	unsubAt                 map[*MSession]map[uint32]bool // types that lost a subscriber
	actorBefore, actorAfter *MSession
	stepTags                string
	refusedStep             int // stepIdx+1 of the last step whose request was refused as the reference expects
}

func NewExec(d Driver, cfg Config) *Exec {
	base := cfg.ReqBase
	if base == 0 {
		base = 100
	}
	e := &Exec{Cfg: cfg, M: NewModel(), cur: map[int]int{}, delta: map[int][]Rx{}, nextReq: base, Labels: map[string]int{}, lat: map[int]*latRun{}, applied: map[int]map[int32]int{}, unsubAt: map[*MSession]map[uint32]bool{}}
	e.Rec = newRecDriver(d, &e.traceStep)
	e.Rec.onSend = func(int) { e.sentAt = time.Now() }
	e.D = e.Rec
	return e
}

func (e *Exec) fail(tags string, format string, a ...any) {
	e.Viol = append(e.Viol, Violation{Tags: tags, Step: e.stepIdx, Msg: fmt.Sprintf(format, a...)})
}

func (e *Exec) label(l string) { e.Labels[l]++ }

func (e *Exec) reqTS() *timestamppb.Timestamp {
	return &timestamppb.Timestamp{Seconds: 1700000000 + int64(e.stepIdx), Nanos: int32(e.nextReq % 1000000000)}
}

func sameTS(a, b *timestamppb.Timestamp) bool {
	if a == nil || b == nil {
		return a == b
	}
	return a.Seconds == b.Seconds && a.Nanos == b.Nanos
}

// collect gathers what every connection received since the last call.
func (e *Exec) collect() {
	e.delta = map[int][]Rx{}
	for slot, mc := range e.M.Conns {
		if mc.Stalled {
			continue
		}
		in := e.D.Inbox(slot)
		if e.cur[slot] < len(in) {
			for _, rx := range in[e.cur[slot]:] {
				if rx.T == TSyncClock {
					continue
				}
				e.delta[slot] = append(e.delta[slot], rx)
				// replicas are updated in arrival order
				e.applyBroadcast(e.M.Conns[slot], rx)
			}
			e.cur[slot] = len(in)
		}
	}
}

// take removes and returns the first pending message of slot matching pred.
func (e *Exec) take(slot int, pred func(Rx) bool) (Rx, bool) {
	l := e.delta[slot]
	for i, rx := range l {
		if pred(rx) {
			e.delta[slot] = append(l[:i:i], l[i+1:]...)
			return rx, true
		}
	}
	return Rx{}, false
}

func isType(t int32) func(Rx) bool { return func(r Rx) bool { return r.T == t } }

func isResp(t int32, req uint32) func(Rx) bool {
	return func(r Rx) bool { return r.T == t && r.ReqID() == req }
}

// conn returns the model connection of a slot, (re)connecting when the
// previous connection of the slot has ended.
func (e *Exec) conn(slot int) *MConn {
	mc := e.M.Conns[slot]
	if mc == nil || mc.Ended {
		e.D.Connect(slot)
		e.cur[slot] = 0
		mc = &MConn{Slot: slot, PendingPose: map[uint32]*Step{}, PendingComp: map[CompKey]*Step{}, LastAct: time.Now()}
		e.M.Conns[slot] = mc
		delete(e.lat, slot)
		e.label("connect")
	}
	return mc
}

// ---------------------------------------------------------------------------
// reference resolution

func (e *Exec) resolveSess(mc *MConn, r Ref) string {
	switch r.Kind {
	case SessNew, "":
		return ""
	case SessLive:
		if len(e.M.Live) == 0 {
			return ""
		}
		return e.M.Live[r.N%len(e.M.Live)].ID
	case SessCurrent:
		if mc.Sess != nil {
			return mc.Sess.ID
		}
		return ""
	case SessEnded:
		if len(e.M.Ended) == 0 {
			return "vrfxdead"
		}
		return e.M.Ended[r.N%len(e.M.Ended)].ID
	default:
		g := []string{"nope", "vrfx", "vrfxzz", "tedx1", "x1", "vrfx0", "VRFX1", " vrfx1", "vrfx1 ", "vrfxffffffff"}
		return g[r.N%len(g)]
	}
}

// noteForeignID labels requests whose entity id exists only in another session.
func (e *Exec) noteForeignID(mc *MConn, eid uint32) {
	if mc.Sess == nil || eid == 0 {
		return
	}
	if _, ok := mc.Sess.Ents[eid]; ok {
		return
	}
	for _, o := range e.M.Live {
		if o != mc.Sess {
			if _, ok := o.Ents[eid]; ok {
				e.label("id_of_other_session")
				return
			}
		}
	}
}

func (e *Exec) resolveEnt(mc *MConn, r Ref) uint32 {
	id := e.resolveEnt0(mc, r)
	e.noteForeignID(mc, id)
	return id
}

func (e *Exec) resolveEnt0(mc *MConn, r Ref) uint32 {
	s := mc.Sess
	if s == nil {
		// not joined: any number; ids of other sessions coincide anyway
		if r.Kind == EntZero {
			return 0
		}
		return uint32(r.N%4) + 1
	}
	pick := func(l []uint32) (uint32, bool) {
		if len(l) == 0 {
			return 0, false
		}
		return l[r.N%len(l)], true
	}
	switch r.Kind {
	case EntZero:
		return 0
	case EntAlive:
		var l []uint32
		for id := range s.Ents {
			l = append(l, id)
		}
		sort.Slice(l, func(i, j int) bool { return l[i] < l[j] })
		if id, ok := pick(l); ok {
			return id
		}
	case EntMine:
		if id, ok := pick(s.ownedBy(mc.Pid, nil)); ok {
			return id
		}
	case EntForeign:
		var l []uint32
		for id, en := range s.Ents {
			if en.Owner != mc.Pid {
				l = append(l, id)
			}
		}
		sort.Slice(l, func(i, j int) bool { return l[i] < l[j] })
		if id, ok := pick(l); ok {
			return id
		}
	case EntNever:
		var max uint32
		for _, id := range s.EidsEver {
			if id > max {
				max = id
			}
		}
		return max + 1 + uint32(r.N%3)
	}
	if id, ok := pick(s.EidsEver); ok {
		return id
	}
	return uint32(r.N%3) + 1
}

func (e *Exec) resolveTyp(mc *MConn, r Ref) uint32 {
	s := mc.Sess
	if r.Kind == TypZero {
		return 0
	}
	if s == nil {
		return uint32(r.N%3) + 1
	}
	if r.Kind == TypNever || len(s.TypeOrder) == 0 {
		var max uint32
		for _, id := range s.TypeOrder {
			if id > max {
				max = id
			}
		}
		return max + 1 + uint32(r.N%3)
	}
	return s.TypeOrder[r.N%len(s.TypeOrder)]
}

func (e *Exec) resolvePids(mc *MConn, rs []Ref) []uint32 {
	var out []uint32
	s := mc.Sess
	for _, r := range rs {
		switch {
		case r.Kind == PSelf && s != nil:
			out = append(out, mc.Pid)
		case r.Kind == PMember && s != nil && len(s.Members) > 0:
			ps := s.memberPids()
			out = append(out, ps[r.N%len(ps)])
		case r.Kind == PGone && s != nil && len(s.PidsGone) > 0:
			out = append(out, s.PidsGone[r.N%len(s.PidsGone)])
		default:
			var max uint32
			if s != nil {
				for _, p := range s.PidsEver {
					if p > max {
						max = p
					}
				}
			}
			out = append(out, max+1+uint32(r.N%5))
		}
	}
	return out
}

func bodyOf(st Step) []byte {
	if st.BigLen <= 0 {
		return st.Data
	}
	b := make([]byte, st.BigLen)
	var x uint32 = 2463534242
	for _, d := range st.Data {
		x = x*31 + uint32(d)
	}
	for i := range b {
		x ^= x << 13
		x ^= x >> 17
		x ^= x << 5
		b[i] = byte(x)
	}
	return b
}

// ---------------------------------------------------------------------------

// Run executes the whole script; it stops early once the model can no longer
// be trusted to be in step with the server (after a violation).
func (e *Exec) Run(sc Script) {
	for i, st := range sc.Steps {
		e.stepIdx = i
		e.Step(st)
		if len(e.D.Panics()) > 0 {
			// a panic explains whatever else went wrong in this step: report it first
			e.Viol = append([]Violation{{Tags: "C08,C04,C11,C20", Step: i, Msg: "server code panicked: " + e.D.Panics()[0]}}, e.Viol...)
		}
		if len(e.Viol) > 0 {
			return
		}
	}
	e.stepIdx = len(sc.Steps)
}

// Finish closes whatever is still connected (checking each departure) and
// then verifies that nothing of any connection or session is left behind.
func (e *Exec) Finish() {
	if len(e.Viol) > 0 {
		return
	}
	slots := make([]int, 0, len(e.M.Conns))
	for s := range e.M.Conns {
		slots = append(slots, s)
	}
	sort.Ints(slots)
	for _, slot := range slots {
		mc := e.M.Conns[slot]
		if mc.Ended {
			continue
		}
		e.stepIdx++
		e.traceStep = 4 * e.stepIdx
		e.actorBefore, e.stepTags = mc.Sess, ""
		e.doClose(mc)
		e.actorAfter = nil
		e.annotate(slot)
		e.after(mc)
		if len(e.Viol) > 0 {
			return
		}
	}
	if len(e.M.Live) != 0 {
		e.fail("C07,C08", "%d session(s) live in the model after every connection was closed", len(e.M.Live))
	}
	for _, l := range e.D.Leaks() {
		e.fail("C08,C07,C06", "after every connection has ended: %s", l)
	}
	if g := sessionGauge() - e.Gauge0; g != 0 {
		e.fail("C07,C08", "after every connection has ended the session gauge is off by %v", g)
	}
}

func (e *Exec) Step(st Step) {
	if st.Op == OpTick {
		e.traceStep = 4 * e.stepIdx
		e.tick()
		e.after(nil)
		return
	}
	e.traceStep = 4 * e.stepIdx
	mc := e.conn(st.Conn)
	if e.Ex.PendingAcrossJoin {
		if st.Op == OpJoin && (len(mc.PendingPose) > 0 || len(mc.PendingComp) > 0) {
			if mc.joined() {
				e.Excluded++
				e.tick()
				e.after(nil)
				if len(e.Viol) > 0 {
					return
				}
				if mc.Ended { // a pending update may have ended the connection
					mc = e.conn(st.Conn)
				}
			}
		}
		if (st.Op == OpPose || st.Op == OpCompUpdate) && !mc.joined() {
			e.Excluded++
			return
		}
	}
	if e.Ex.SerialiseCompConflicts && st.Op == OpCompUpdate && mc.joined() {
		k := CompKey{e.resolveTyp(mc, st.Typ), e.resolveEnt(mc, st.Ent)}
		conflict := false
		for _, o := range e.M.Conns {
			if o != mc && o.Sess == mc.Sess && !o.Ended {
				if _, ok := o.PendingComp[k]; ok {
					conflict = true
				}
			}
		}
		if conflict {
			e.label("frame_inserted_before_conflicting_component_update")
			e.tick()
			e.after(nil)
			if len(e.Viol) > 0 {
				return
			}
			if mc.Ended {
				mc = e.conn(st.Conn)
			}
		}
	}
	if mc.Stalled && st.Op != OpSilence {
		// a client that stopped reading stays silent until it is dropped as
		// idle (an ACTIVE staller is never dropped: known finding)
		e.label("step_of_stalled_client_skipped")
		return
	}
	e.traceStep = 4*e.stepIdx + 1
	e.actorBefore = mc.Sess
	e.stepTags = ""
	e.nextReq++
	req := e.nextReq
	e.sentAt = time.Now()

	switch st.Op {
	case OpJoin:
		e.doJoin(mc, st, req)
	case OpClose:
		e.doClose(mc)
	case OpEntityAdd:
		e.doEntityAdd(mc, st, req)
	case OpEntityDel:
		e.doEntityDel(mc, st, req)
	case OpPose:
		e.doPose(mc, st)
	case OpCustom:
		e.doCustom(mc, st)
	case OpTypeAdd, OpGetName, OpGetID:
		e.doTypeOps(mc, st, req)
	case OpCompAdd:
		e.doCompAdd(mc, st, req)
	case OpCompDel:
		e.doCompDel(mc, st, req)
	case OpCompUpdate:
		e.doCompUpdate(mc, st)
	case OpCompList:
		e.doCompList(mc, st, req)
	case OpSub, OpUnsub:
		e.doSub(mc, st, req)
	case OpPing:
		e.D.Send(mc.Slot, &hagallpb.Request{Type: TPingReq, Timestamp: e.reqTS(), RequestId: req})
		e.collect()
		if _, ok := e.take(mc.Slot, isResp(TPingResp, req)); !ok {
			e.fail("C04", "ping %d not answered with PING_RESPONSE", req)
		}
	case OpPingResp:
		e.doPingResp(mc, st)
	case OpLatency:
		e.doLatency(mc, st, req)
	case OpAction:
		e.doAction(mc, st, req)
	case OpAsset:
		e.doAsset(mc, st, req)
	case OpQuad, OpGround, OpRegion, OpDebug:
		e.doDagaz(mc, st, req)
	case OpReceipt:
		e.doReceipt(mc, st, req)
	case OpUnknown:
		e.D.Send(mc.Slot, &hagallpb.Request{Type: hagallpb.MsgType(st.Count), Timestamp: e.reqTS(), RequestId: req})
		e.collect()
	case OpGarbage, OpText, OpBadTyped, OpBurstBad, OpBurstPing, OpSilence, OpStall, OpAbort:
		e.doHostile(mc, st, req)
	case OpNoTS:
		e.D.Send(mc.Slot, &hagallpb.ParticipantJoinRequest{Type: TJoinReq, RequestId: req})
		e.collect()
		e.expectEnded(mc, "C08,C06", "a frame without timestamp")
	default:
		panic("unknown op " + string(st.Op))
	}
	switch st.Op {
	case OpPose, OpCompUpdate, OpGarbage, OpText, OpNoTS, OpStall, OpSilence, OpAbort, OpClose:
		// not consumed by the connection's main loop (or no message at all)
	default:
		if !mc.Ended {
			mc.LastAct = e.sentAt
		}
	}
	e.actorAfter = mc.Sess
	e.annotate(mc.Slot)
	e.after(mc)
}

func seqOf(s *MSession) int {
	if s == nil {
		return 0
	}
	return s.Seq
}

// annotate stamps the trace events of the current step with the session
// instance the actor was in before and after it.
func (e *Exec) annotate(slot int) {
	for i := len(e.Rec.ev) - 1; i >= 0 && e.Rec.ev[i].Step == e.traceStep; i-- {
		ev := &e.Rec.ev[i]
		if ev.Kind == EvAdvance || ev.Slot != slot {
			continue
		}
		ev.Before, ev.After = seqOf(e.actorBefore), seqOf(e.actorAfter)
	}
	if len(e.M.Live) >= 2 {
		e.label("two_sessions_live")
	}
}

// markJoin records which session instance the join request just sent addresses.
func (e *Exec) markJoin(inst int) {
	for i := len(e.Rec.ev) - 1; i >= 0; i-- {
		if e.Rec.ev[i].Kind == EvSend {
			e.Rec.ev[i].JoinInst = inst
			return
		}
	}
}

// after runs the checks that apply after every step.
func (e *Exec) after(actor *MConn) {
	for slot, mc := range e.M.Conns {
		if !mc.Ended && e.D.Ended(slot) {
			e.fail("C08,C04", "connection c%d was ended by the server without a reason the protocol gives", slot)
			return
		}
	}
	e.leftovers(actor)
	if len(e.Viol) > 0 {
		return
	}
	e.checkViews()
	e.checkServerState(actor)
}

func (e *Exec) leftovers(actor *MConn) {
	slots := make([]int, 0, len(e.delta))
	for s := range e.delta {
		slots = append(slots, s)
	}
	sort.Ints(slots)
	for _, slot := range slots {
		for _, rx := range e.delta[slot] {
			tags := "C02"
			mc := e.M.Conns[slot]
			if actor != nil && slot == actor.Slot {
				tags = "C04,C02"
			} else if actor != nil && mc != nil && (mc.Sess == nil || (mc.Sess != e.actorBefore && mc.Sess != e.actorAfter)) {
				tags = "C03,C02"
			}
			tags += "," + tagsForType(rx.T)
			if e.stepTags != "" {
				tags += "," + e.stepTags
			}
			e.fail(tags, "unexpected message at connection c%d: %s", slot, rx)
		}
	}
	e.delta = map[int][]Rx{}
}

func tagsForType(t int32) string {
	switch t {
	case TPoseBcast:
		return "C11,C05"
	case TCompAddBcast, TCompDelBcast, TCompUpdateBcast:
		return "C12,C13"
	case TCustomBcast:
		return "C14"
	case TActionBcast, TAssetBcast, TVikjaState, TOdalState:
		return "C16"
	case TEntityDelBcast:
		return "C06,C05"
	case TLeaveBcast, TJoinBcast:
		return "C06,C07"
	case TPingReq, TSignedLatencyResp:
		return "C18"
	case TError:
		return "C04"
	}
	return "C04"
}

// others returns the slots of the members of s other than pid, sorted.
func others(s *MSession, pid uint32) []int {
	var out []int
	for p, slot := range s.Members {
		if p != pid {
			out = append(out, slot)
		}
	}
	sort.Ints(out)
	return out
}

// expectRelay checks that every other member received exactly one message of
// type t satisfying ok (leftovers catches duplicates and strays).
func (e *Exec) expectRelay(s *MSession, sender uint32, t int32, tags, what string, ok func(Rx) string) {
	e.expectRelayTo(others(s, sender), t, tags, what, ok)
}

func (e *Exec) expectRelayTo(slots []int, t int32, tags, what string, ok func(Rx) string) {
	if len(slots) >= 2 {
		e.label("relay_to_2plus")
	}
	for _, slot := range slots {
		if c := e.M.Conns[slot]; c != nil && c.Stalled {
			e.label("relay_to_stalled_client")
			continue // queued on the server; the client is not reading
		}
		_, found := e.take(slot, func(r Rx) bool { return r.T == t && ok(r) == "" })
		if !found && e.optional[slot] {
			continue // that recipient goes at the same instant
		}
		if !found {
			// is there one of the right type with wrong content?
			if bad, f2 := e.take(slot, isType(t)); f2 {
				e.fail(tags, "%s: connection c%d received %s: %s", what, slot, bad, ok(bad))
			} else {
				e.fail(tags, "%s: connection c%d did not receive %s", what, slot, typeName(t))
			}
		}
	}
}

// expectError: the requester got exactly one ERROR_RESPONSE for req with one of codes.
func (e *Exec) expectError(mc *MConn, req uint32, tags, why string, codes ...hagallpb.ErrorCode) bool {
	rx, ok := e.take(mc.Slot, isResp(TError, req))
	if !ok {
		e.fail(tags, "%s: request %d should be refused with ERROR_RESPONSE %v, got %v", why, req, codes, e.delta[mc.Slot])
		return false
	}
	got := rx.M.(*hagallpb.ErrorResponse).Code
	for _, c := range codes {
		if c == got {
			e.refusedStep = e.stepIdx + 1
			return true
		}
	}
	e.fail(tags, "%s: request %d refused with code %v, expected one of %v", why, req, got, codes)
	return false
}

const (
	cBad      = hagallpb.ErrorCode_ERROR_CODE_BAD_REQUEST
	cUnauth   = hagallpb.ErrorCode_ERROR_CODE_UNAUTHORIZED
	cNotFound = hagallpb.ErrorCode_ERROR_CODE_NOT_FOUND
	cConflict = hagallpb.ErrorCode_ERROR_CODE_CONFLICT
	cTooLarge = hagallpb.ErrorCode_ERROR_CODE_TOO_LARGE
	cNotJoin  = hagallpb.ErrorCode_ERROR_CODE_SESSION_NOT_JOINED
	cAlready  = hagallpb.ErrorCode_ERROR_CODE_SESSION_ALREADY_JOINED
	cInternal = hagallpb.ErrorCode_ERROR_CODE_INTERNAL_SERVER_ERROR
	cBusy     = hagallpb.ErrorCode_ERROR_CODE_SERVER_TOO_BUSY
)

// notJoined: a request that needs a session from a connection that is in
// none: answered with an error, dropped, or the connection is ended; nothing
// else may happen (leftovers + state checks enforce "nothing else").
func (e *Exec) notJoined(mc *MConn, req uint32) {
	e.label("not_joined_request")
	e.stepTags = "C04,C03"
	if rx, ok := e.take(mc.Slot, isResp(TError, req)); ok {
		_ = rx
	}
	if e.D.Ended(mc.Slot) {
		mc.Ended = true
	}
}

// expectEnded: the server must have ended the connection (through the normal
// path); the model applies the departure.
func (e *Exec) expectEnded(mc *MConn, tags, why string) {
	if !e.D.Ended(mc.Slot) {
		e.fail(tags, "connection c%d should have been ended after %s", mc.Slot, why)
		return
	}
	e.departure(mc, tags)
	mc.Ended = true
}

// mayEnd: the connection may or may not have been ended by the server.
func (e *Exec) mayEnd(mc *MConn, tags string) {
	if e.D.Ended(mc.Slot) && !mc.Ended {
		e.departure(mc, tags)
		mc.Ended = true
	}
}

func (e *Exec) unexpectedEnd(mc *MConn, tags string) bool {
	if e.D.Ended(mc.Slot) && !mc.Ended {
		e.fail(tags, "connection c%d was ended by the server although its request was valid", mc.Slot)
		return true
	}
	return false
}

// ---------------------------------------------------------------------------
// departure (C06): exactly the leaver's non-persistent entities go, with all
// attachments; its subscriptions end; the others are told once about each.

func (e *Exec) departure(mc *MConn, tags string) {
	s := mc.Sess
	if s == nil {
		return
	}
	e.label("departure")
	tags = "C06,C02," + tags
	np := false
	removed := s.ownedBy(mc.Pid, &np)
	if len(removed) > 0 {
		e.label("departure_removes_entities")
	}
	yes := true
	if len(s.ownedBy(mc.Pid, &yes)) > 0 {
		e.label("departure_keeps_persistent")
	}
	os := others(s, mc.Pid)
	if len(os) > 0 {
		richP, richN := false, false
		for _, id := range s.ownedBy(mc.Pid, nil) {
			if hasAttachments(s, id) {
				if s.Ents[id].Persist {
					richP = true
				} else {
					richN = true
				}
			}
		}
		if richP && richN {
			e.label("departure_rich")
		}
		if richN {
			e.label("departure_removes_attachments")
		}
	}
	for tid, subs := range s.Subs {
		if subs[mc.Pid] {
			e.label("departure_of_subscriber")
			e.noteUnsub(s, tid)
		}
	}
	for _, eid := range removed {
		eid := eid
		e.expectRelayTo(os, TEntityDelBcast, tags, fmt.Sprintf("departure of participant %d (entity %d removed)", mc.Pid, eid), func(r Rx) string {
			if r.M.(*hagallpb.EntityDeleteBroadcast).EntityId != eid {
				return "other entity"
			}
			return ""
		})
		s.removeEntity(eid)
	}
	e.expectRelayTo(os, TLeaveBcast, tags, fmt.Sprintf("departure of participant %d", mc.Pid), func(r Rx) string {
		if r.M.(*hagallpb.ParticipantLeaveBroadcast).ParticipantId != mc.Pid {
			return "other participant"
		}
		return ""
	})
	for _, subs := range s.Subs {
		delete(subs, mc.Pid)
	}
	delete(s.Members, mc.Pid)
	s.PidsGone = append(s.PidsGone, mc.Pid)
	if len(s.Members) == 0 {
		e.M.endSession(s)
		e.label("session_end")
	}
	mc.Sess = nil
	mc.Pid = 0
	mc.View = nil
	mc.PendingPose = map[uint32]*Step{}
	mc.PendingComp = map[CompKey]*Step{}
	delete(e.lat, mc.Slot)
}

func (e *Exec) noteUnsub(s *MSession, tid uint32) {
	if e.unsubAt[s] == nil {
		e.unsubAt[s] = map[uint32]bool{}
	}
	e.unsubAt[s][tid] = true
}

func (e *Exec) noteCompChange(s *MSession, tid uint32) {
	if e.unsubAt[s][tid] {
		e.label("comp_change_after_unsubscribe")
	}
}

func (e *Exec) doClose(mc *MConn) {
	e.label("close")
	e.D.Close(mc.Slot)
	e.collect()
	e.departure(mc, "")
	mc.Ended = true
}

// ---------------------------------------------------------------------------
// join

func (e *Exec) doJoin(mc *MConn, st Step, req uint32) {
	id := e.resolveSess(mc, st.Sess)
	ts := e.reqTS()
	e.D.Send(mc.Slot, &hagallpb.ParticipantJoinRequest{Type: TJoinReq, Timestamp: ts, RequestId: req, SessionId: id})
	e.collect()

	switch t := e.M.liveByID(id); {
	case id == "":
		e.markJoin(0)
	case t != nil:
		e.markJoin(t.Seq)
	default:
		e.markJoin(-2) // names no session: sent literally
	}
	if mc.Sess != nil && mc.Sess.ID == id {
		e.label("join_already_joined")
		e.stepTags = "C04"
		e.expectError(mc, req, "C04", "join of the session already joined", cAlready)
		// the modules may re-send their state to the (still joined) requester
		e.takeModuleStates(mc, "C04,C01,C16", false)
		e.unexpectedEnd(mc, "C04,C08")
		return
	}
	target := e.M.liveByID(id)
	if id != "" && target == nil {
		e.label("join_refused_not_found")
		e.stepTags = "C04,C07"
		e.expectError(mc, req, "C04,C07", "join of a session id that does not resolve", cNotFound)
		if mc.joined() {
			// still a member: the modules may re-send their state (a refresh)
			e.takeModuleStates(mc, "C04,C01,C16", false)
		}
		e.unexpectedEnd(mc, "C04,C08")
		return
	}
	// accepted
	if mc.Sess != nil {
		e.label("join_switch")
		e.departure(mc, "C04")
	}
	rx, ok := e.take(mc.Slot, isResp(TJoinResp, req))
	if !ok {
		e.fail("C04,C07", "join request %d not answered with PARTICIPANT_JOIN_RESPONSE: %v", req, e.delta[mc.Slot])
		return
	}
	jr := rx.M.(*hagallpb.ParticipantJoinResponse)
	if target == nil {
		e.label("join_new")
		if other := e.M.liveByID(jr.SessionId); other != nil {
			e.fail("C10,C07", "new session was given id %q which a live session already has", jr.SessionId)
			return
		}
		if e.M.UUIDs[jr.SessionUuid] || jr.SessionUuid == "" {
			e.fail("C07,C10", "new session %q has UUID %q which is empty or was used before", jr.SessionId, jr.SessionUuid)
		}
		for _, old := range e.M.Ended {
			if old.ID == jr.SessionId {
				e.label("session_id_reused")
				break
			}
		}
		e.M.sessSeq++
		target = newMSession(jr.SessionId, jr.SessionUuid, e.M.sessSeq)
		target.Born = time.Now()
		e.M.UUIDs[jr.SessionUuid] = true
		e.M.Live = append(e.M.Live, target)
	} else {
		e.label("join_existing")
		if len(target.Ents) > 0 {
			e.label("join_existing_with_entities")
		}
		if len(target.Comps) > 0 || len(target.Actions) > 0 || len(target.Assets) > 0 {
			e.label("join_existing_with_attachments")
		}
		if jr.SessionId != target.ID {
			e.fail("C07,C04", "joined %q but the response names session %q", target.ID, jr.SessionId)
			return
		}
		if jr.SessionUuid != target.UUID {
			e.fail("C07", "session %q changed UUID from %q to %q", target.ID, target.UUID, jr.SessionUuid)
		}
	}
	pid := jr.ParticipantId
	if target.pidEver(pid) {
		e.fail("C10,C05", "participant id %d issued twice in session %q", pid, target.ID)
		return
	}
	target.PidsEver = append(target.PidsEver, pid)
	target.Members[pid] = mc.Slot
	mc.Sess = target
	mc.Pid = pid
	if len(target.Members) >= 3 {
		e.label("session_3plus_members")
	}

	// the newcomer is handed exactly the session's state
	v := newView()
	v.HasVikja, v.HasOdal = e.Cfg.has("vikja"), e.Cfg.has("odal")
	mc.View = v
	ss, ok := e.take(mc.Slot, isType(TSessionState))
	if !ok {
		e.fail("C01,C04", "joiner did not receive SESSION_STATE")
		return
	}
	e.initViewFromSessionState(mc, ss.M.(*hagallpb.SessionState))
	e.takeModuleStates(mc, "C01,C16", true)
	if d := diffView(v, target); len(d) > 0 {
		dt, dm := joinDiffs(d)
		e.fail("C01,"+dt, "state handed to newcomer (participant %d of %q) differs from the session's state: %s", pid, target.ID, dm)
	}

	e.expectRelay(target, pid, TJoinBcast, "C02", fmt.Sprintf("join of participant %d", pid), func(r Rx) string {
		b := r.M.(*hagallpb.ParticipantJoinBroadcast)
		if b.ParticipantId != pid {
			return "wrong participant id"
		}
		if !sameTS(b.OriginTimestamp, ts) {
			return "origin timestamp is not the request's"
		}
		return ""
	})
	e.unexpectedEnd(mc, "C04,C08")
}

func (e *Exec) initViewFromSessionState(mc *MConn, ss *hagallpb.SessionState) {
	v := mc.View
	for _, p := range ss.Participants {
		if v.Parts[p.Id] {
			e.fail("C01", "SESSION_STATE lists participant %d twice", p.Id)
		}
		v.Parts[p.Id] = true
	}
	for _, en := range ss.Entities {
		if _, dup := v.Ents[en.Id]; dup {
			e.fail("C01", "SESSION_STATE lists entity %d twice", en.Id)
		}
		v.Ents[en.Id] = &MEntity{ID: en.Id, Owner: en.ParticipantId, Flag: int32(en.Flag), Pose: f32bits(en.Pose)}
	}
	// components are handed for every type; the view of a type stays
	// defined only while the connection is subscribed to it, so the
	// snapshot is compared here once, in full.
	got := map[CompKey][]byte{}
	for _, c := range ss.EntityComponents {
		k := CompKey{c.EntityComponentTypeId, c.EntityId}
		if _, dup := got[k]; dup {
			e.fail("C01,C12", "SESSION_STATE lists component (%d,%d) twice", k.Tid, k.Eid)
		}
		got[k] = c.Data
	}
	if d := diffComps(got, mc.Sess.Comps, 0); d != "" {
		e.fail("C01,C12,C06", "components handed to newcomer differ from the session's: %s", d)
	}
}

func diffComps(got, want map[CompKey][]byte, onlyTid uint32) string {
	var out []string
	for k, d := range want {
		if onlyTid != 0 && k.Tid != onlyTid {
			continue
		}
		g, ok := got[k]
		if !ok {
			out = append(out, fmt.Sprintf("(%d,%d) missing", k.Tid, k.Eid))
		} else if !bytes.Equal(g, d) {
			out = append(out, fmt.Sprintf("(%d,%d) data %x, expected %x", k.Tid, k.Eid, g, d))
		}
	}
	for k := range got {
		if onlyTid != 0 && k.Tid != onlyTid {
			continue
		}
		if _, ok := want[k]; !ok {
			out = append(out, fmt.Sprintf("(%d,%d) should not exist", k.Tid, k.Eid))
		}
	}
	sort.Strings(out)
	return strings.Join(out, "; ")
}

// takeModuleStates consumes VIKJA_STATE / ODAL_STATE at the requester and
// (re)initialises the module part of its view.
func (e *Exec) takeModuleStates(mc *MConn, tags string, required bool) {
	if mc.View == nil {
		return
	}
	if e.Cfg.has("vikja") {
		if rx, ok := e.take(mc.Slot, isType(TVikjaState)); ok {
			mc.View.Actions = map[uint32]map[string]MAction{}
			for _, a := range rx.M.(*vikjapb.State).EntityActions {
				if mc.View.Actions[a.EntityId] == nil {
					mc.View.Actions[a.EntityId] = map[string]MAction{}
				}
				if _, dup := mc.View.Actions[a.EntityId][a.Name]; dup {
					e.fail(tags, "VIKJA_STATE lists action (%d,%q) twice", a.EntityId, a.Name)
				}
				mc.View.Actions[a.EntityId][a.Name] = MAction{Sec: a.GetTimestamp().GetSeconds(), Nano: a.GetTimestamp().GetNanos(), Data: a.Data}
			}
		} else if required {
			e.fail(tags, "joiner did not receive VIKJA_STATE")
		}
	}
	if e.Cfg.has("odal") {
		if rx, ok := e.take(mc.Slot, isType(TOdalState)); ok {
			mc.View.Assets = map[uint32]MAsset{}
			for _, a := range rx.M.(*odalpb.State).AssetInstances {
				if _, dup := mc.View.Assets[a.EntityId]; dup {
					e.fail(tags, "ODAL_STATE lists two asset instances for entity %d", a.EntityId)
				}
				mc.View.Assets[a.EntityId] = MAsset{Inst: a.Id, AssetID: a.AssetId, Pid: a.ParticipantId}
			}
		} else if required {
			e.fail(tags, "joiner did not receive ODAL_STATE")
		}
	}
}

// ---------------------------------------------------------------------------
// applying broadcasts to replica views (C01: every broadcast must be applicable)

func (e *Exec) applyBroadcast(mc *MConn, rx Rx) {
	if mc == nil || mc.View == nil {
		return
	}
	v := mc.View
	if e.applied[mc.Slot] == nil {
		e.applied[mc.Slot] = map[int32]int{}
	}
	e.applied[mc.Slot][rx.T]++
	if a := e.applied[mc.Slot]; len(a) >= 2 {
		n := 0
		for _, c := range a {
			n += c
		}
		if n >= 3 {
			e.label("observer_3_broadcasts_2_kinds")
		}
	}
	bad := func(format string, a ...any) {
		e.fail("C01,"+tagsForType(rx.T)+e.stepTagSuffix(), "connection c%d (participant %d) was sent a broadcast it cannot apply: %s: %s", mc.Slot, mc.Pid, rx, fmt.Sprintf(format, a...))
	}
	switch m := rx.M.(type) {
	case *hagallpb.ParticipantJoinBroadcast:
		if v.Parts[m.ParticipantId] {
			bad("participant already known")
		}
		v.Parts[m.ParticipantId] = true
	case *hagallpb.ParticipantLeaveBroadcast:
		if !v.Parts[m.ParticipantId] {
			bad("participant not known")
		}
		delete(v.Parts, m.ParticipantId)
	case *hagallpb.EntityAddBroadcast:
		if m.Entity == nil {
			bad("no entity")
			return
		}
		if _, ok := v.Ents[m.Entity.Id]; ok {
			bad("entity already known")
		}
		v.Ents[m.Entity.Id] = &MEntity{ID: m.Entity.Id, Owner: m.Entity.ParticipantId, Flag: int32(m.Entity.Flag), Pose: f32bits(m.Entity.Pose)}
	case *hagallpb.EntityDeleteBroadcast:
		if _, ok := v.Ents[m.EntityId]; !ok {
			bad("entity not known")
		}
		v.removeEntity(m.EntityId)
	case *hagallpb.EntityUpdatePoseBroadcast:
		en, ok := v.Ents[m.EntityId]
		if !ok {
			bad("entity not known")
			return
		}
		en.Pose = f32bits(m.Pose)
	case *hagallpb.EntityComponentAddBroadcast:
		c := m.EntityComponent
		if c == nil || !v.CompDef[c.EntityComponentTypeId] {
			return
		}
		k := CompKey{c.EntityComponentTypeId, c.EntityId}
		if _, ok := v.Comps[k]; ok {
			bad("component already known")
		}
		if _, ok := v.Ents[c.EntityId]; !ok {
			bad("entity not known")
		}
		v.Comps[k] = c.Data
	case *hagallpb.EntityComponentDeleteBroadcast:
		c := m.EntityComponent
		if c == nil || !v.CompDef[c.EntityComponentTypeId] {
			return
		}
		k := CompKey{c.EntityComponentTypeId, c.EntityId}
		if _, ok := v.Comps[k]; !ok {
			bad("component not known")
		}
		delete(v.Comps, k)
	case *hagallpb.EntityComponentUpdateBroadcast:
		c := m.EntityComponent
		if c == nil || !v.CompDef[c.EntityComponentTypeId] {
			return
		}
		k := CompKey{c.EntityComponentTypeId, c.EntityId}
		if _, ok := v.Comps[k]; !ok {
			bad("component not known")
		}
		v.Comps[k] = c.Data
	case *vikjapb.EntityActionBroadcast:
		a := m.EntityAction
		if a == nil {
			bad("no action")
			return
		}
		if _, ok := v.Ents[a.EntityId]; !ok {
			bad("entity not known")
		}
		if v.Actions[a.EntityId] == nil {
			v.Actions[a.EntityId] = map[string]MAction{}
		}
		v.Actions[a.EntityId][a.Name] = MAction{Sec: a.GetTimestamp().GetSeconds(), Nano: a.GetTimestamp().GetNanos(), Data: a.Data}
	case *odalpb.AssetInstanceAddBroadcast:
		a := m.AssetInstance
		if a == nil {
			bad("no asset instance")
			return
		}
		if _, ok := v.Ents[a.EntityId]; !ok {
			bad("entity not known")
		}
		v.Assets[a.EntityId] = MAsset{Inst: a.Id, AssetID: a.AssetId, Pid: a.ParticipantId}
	}
}

func (e *Exec) stepTagSuffix() string {
	t := e.stepTags
	if e.refusedStep == e.stepIdx+1 && !strings.Contains(","+t+",", ",C04,") {
		// "a refused request changes nothing" is a clause of C04: whatever differs from the
		// reference right after a request that was refused as expected bears on C04 as well
		if t != "" {
			t += ","
		}
		t += "C04"
	}
	if t == "" {
		return ""
	}
	return "," + t
}

func (e *Exec) checkViews() {
	slots := make([]int, 0, len(e.M.Conns))
	for s := range e.M.Conns {
		slots = append(slots, s)
	}
	sort.Ints(slots)
	for _, slot := range slots {
		mc := e.M.Conns[slot]
		if !mc.joined() || mc.View == nil || mc.Stalled {
			continue
		}
		if d := diffView(mc.View, mc.Sess); len(d) > 0 {
			dt, dm := joinDiffs(d)
			e.fail("C01,"+dt+e.stepTagSuffix(), "replicated view of connection c%d (participant %d of %q) differs from the session state: %s", slot, mc.Pid, mc.Sess.ID, dm)
			return
		}
	}
}

// ---------------------------------------------------------------------------
// entities

func (e *Exec) doEntityAdd(mc *MConn, st Step, req uint32) {
	ts := e.reqTS()
	var pose *hagallpb.Pose
	if st.Pose != nil {
		pose = poseFromBits(*st.Pose)
	}
	e.D.Send(mc.Slot, &hagallpb.EntityAddRequest{Type: TEntityAddReq, Timestamp: ts, RequestId: req, Pose: pose, Persist: st.Persist, Flag: hagallpb.EntityFlag(st.Flag)})
	e.collect()
	if !mc.joined() {
		e.notJoined(mc, req)
		return
	}
	s := mc.Sess
	rx, ok := e.take(mc.Slot, isResp(TEntityAddResp, req))
	if !ok {
		e.fail("C04", "entity add %d not answered with ENTITY_ADD_RESPONSE: %v", req, e.delta[mc.Slot])
		return
	}
	eid := rx.M.(*hagallpb.EntityAddResponse).EntityId
	if s.eidEver(eid) {
		e.fail("C10,C05", "entity id %d issued twice in session %q", eid, s.ID)
		return
	}
	if eid == 0 {
		e.fail("C10,C04", "entity id 0 issued")
	}
	s.EidsEver = append(s.EidsEver, eid)
	en := &MEntity{ID: eid, Owner: mc.Pid, Persist: st.Persist, Flag: st.Flag}
	if st.Pose != nil {
		en.Pose = *st.Pose
	}
	s.Ents[eid] = en
	cp := *en
	mc.View.Ents[eid] = &cp
	if st.Persist {
		e.label("entity_add_persistent")
	} else {
		e.label("entity_add")
	}
	e.expectRelay(s, mc.Pid, TEntityAddBcast, "C02", fmt.Sprintf("entity add %d", eid), func(r Rx) string {
		b := r.M.(*hagallpb.EntityAddBroadcast)
		if b.Entity == nil {
			return "no entity"
		}
		if b.Entity.Id != eid || b.Entity.ParticipantId != mc.Pid || int32(b.Entity.Flag) != st.Flag || f32bits(b.Entity.Pose) != en.Pose {
			return "entity fields differ from the request"
		}
		if !sameTS(b.OriginTimestamp, ts) {
			return "origin timestamp is not the request's"
		}
		return ""
	})
	e.unexpectedEnd(mc, "C04,C08")
}

func (e *Exec) doEntityDel(mc *MConn, st Step, req uint32) {
	eid := e.resolveEnt(mc, st.Ent)
	ts := e.reqTS()
	e.D.Send(mc.Slot, &hagallpb.EntityDeleteRequest{Type: TEntityDelReq, Timestamp: ts, RequestId: req, EntityId: eid})
	e.collect()
	if !mc.joined() {
		e.notJoined(mc, req)
		return
	}
	s := mc.Sess
	en, ok := s.Ents[eid]
	switch {
	case !ok:
		e.label("entity_del_unknown")
		e.stepTags = "C04,C05"
		e.expectError(mc, req, "C04,C05", fmt.Sprintf("delete of entity %d which does not exist", eid), cNotFound)
	case en.Owner != mc.Pid:
		e.label("entity_del_foreign")
		if _, live := s.Members[en.Owner]; !live {
			e.label("foreign_attempt_owner_gone")
		}
		e.stepTags = "C04,C05"
		e.expectError(mc, req, "C04,C05", fmt.Sprintf("delete of entity %d owned by participant %d, requested by %d", eid, en.Owner, mc.Pid), cUnauth)
	default:
		e.label("entity_del")
		if _, ok := e.take(mc.Slot, isResp(TEntityDelResp, req)); !ok {
			e.fail("C04", "entity delete %d not answered with ENTITY_DELETE_RESPONSE: %v", req, e.delta[mc.Slot])
			return
		}
		if hasAttachments(s, eid) {
			e.label("entity_del_with_attachments")
		}
		s.removeEntity(eid)
		mc.View.removeEntity(eid)
		e.expectRelay(s, mc.Pid, TEntityDelBcast, "C02", fmt.Sprintf("entity delete %d", eid), func(r Rx) string {
			b := r.M.(*hagallpb.EntityDeleteBroadcast)
			if b.EntityId != eid {
				return "other entity"
			}
			if !sameTS(b.OriginTimestamp, ts) {
				return "origin timestamp is not the request's"
			}
			return ""
		})
	}
	e.unexpectedEnd(mc, "C04,C08")
}

func hasAttachments(s *MSession, eid uint32) bool {
	if len(s.Actions[eid]) > 0 {
		return true
	}
	if _, ok := s.Assets[eid]; ok {
		return true
	}
	for k := range s.Comps {
		if k.Eid == eid {
			return true
		}
	}
	return false
}

func (e *Exec) doPose(mc *MConn, st Step) {
	eid := e.resolveEnt(mc, st.Ent)
	var pose *hagallpb.Pose
	if st.Pose != nil && !st.NoSub {
		pose = poseFromBits(*st.Pose)
	}
	ts := e.reqTS()
	e.D.Send(mc.Slot, &hagallpb.EntityUpdatePose{Type: TPose, Timestamp: ts, EntityId: eid, Pose: pose})
	e.collect()
	if !mc.joined() {
		// never executed: dropped (a pending update must not survive until a later join)
		e.label("pose_not_joined")
		e.stepTags = "C04,C03,C11"
		return
	}
	e.stepTags = "C11"
	cp := st
	cp.Ent = Ref{Kind: "resolved", N: int(eid)}
	cp.TSec, cp.TNano = ts.Seconds, ts.Nanos
	if _, again := mc.PendingPose[eid]; again {
		e.label("pose_coalesced")
	}
	mc.PendingPose[eid] = &cp
}

func (e *Exec) doCompUpdate(mc *MConn, st Step) {
	tid := e.resolveTyp(mc, st.Typ)
	eid := e.resolveEnt(mc, st.Ent)
	ts := e.reqTS()
	e.D.Send(mc.Slot, &hagallpb.EntityComponentUpdate{Type: TCompUpdate, Timestamp: ts, EntityComponentTypeId: tid, EntityId: eid, Data: bodyOf(st)})
	e.collect()
	if !mc.joined() {
		e.label("comp_update_not_joined")
		e.stepTags = "C04,C03,C12"
		return
	}
	e.stepTags = "C12,C13"
	cp := st
	cp.Typ = Ref{Kind: "resolved", N: int(tid)}
	cp.Ent = Ref{Kind: "resolved", N: int(eid)}
	cp.TSec, cp.TNano = ts.Seconds, ts.Nanos
	mc.PendingComp[CompKey{tid, eid}] = &cp
}

// tick: one frame elapses for every session.
func (e *Exec) tick() {
	e.label("tick")
	e.advance(e.D.Frame())
}

// advance lets d of fake time pass. Every session whose frame worker ticked
// at least once in (now, now+d] has the pending pose and component updates of
// its members processed (latest per entity / per component).
func (e *Exec) advance(d time.Duration) {
	e.actorBefore, e.actorAfter = nil, nil
	e.stepTags = ""
	t0 := time.Now()
	e.D.Advance(d)
	e.timePassed = true
	t1 := time.Now()
	e.collect()
	fr := e.D.Frame()
	cands := map[*MSession]map[CompKey][][]byte{}
	defer func() { e.reconcileCompConflicts(cands) }()
	// events in (t0, t1] in time order: the first frame tick of every session
	// that has something pending, and idle deadlines of silent connections
	flushed := map[*MSession]bool{}
	for guard := 0; guard < 10000; guard++ {
		var evT time.Time
		var evS *MSession
		var evC *MConn
		consider := func(t time.Time, s *MSession, c *MConn) {
			if t.After(t1) || !t.After(t0) {
				return
			}
			if evT.IsZero() || t.Before(evT) {
				evT, evS, evC = t, s, c
			}
		}
		for _, s := range e.M.Live {
			if flushed[s] || !e.hasPending(s) {
				continue
			}
			k := t0.Sub(s.Born)/fr + 1
			consider(s.Born.Add(k*fr), s, nil)
		}
		if e.Idle > 0 {
			for _, mc := range e.M.Conns {
				if !mc.Ended {
					consider(mc.LastAct.Add(e.Idle), nil, mc)
				}
			}
		}
		if evT.IsZero() {
			break
		}
		_ = evC
		if evS != nil {
			flushed[evS] = true
			e.flushSession(evS, evT, cands)
		} else {
			// every connection whose deadline is this very instant goes at once, in no defined order
			var group []*MConn
			for _, mc := range e.M.Conns {
				if !mc.Ended && mc.LastAct.Add(e.Idle).Equal(evT) {
					group = append(group, mc)
				}
			}
			sort.Slice(group, func(i, j int) bool { return group[i].Slot < group[j].Slot })
			e.optional = map[int]bool{}
			for _, mc := range group {
				e.optional[mc.Slot] = true
			}
			for _, mc := range group {
				e.label("idle_timeout")
				if mc.Sess != nil && len(mc.Sess.ownedBy(mc.Pid, nil)) > 0 {
					e.label("idle_timeout_owning_entities")
				}
				e.stepTags = "C08"
				e.expectEnded(mc, "C08", fmt.Sprintf("being silent for the idle timeout %v", e.Idle))
				e.stepTags = ""
			}
			e.optional = nil
		}
		if len(e.Viol) > 0 {
			return
		}
	}
}

func (e *Exec) hasPending(s *MSession) bool {
	for _, slot := range s.Members {
		if mc := e.M.Conns[slot]; mc != nil && (len(mc.PendingPose) > 0 || len(mc.PendingComp) > 0) {
			return true
		}
	}
	return false
}

// flushSession: the frame worker of s ticked at instant at; the pending pose
// and component updates of its members are processed.
func (e *Exec) flushSession(sess *MSession, at time.Time, cands map[*MSession]map[CompKey][][]byte) {
	slots := make([]int, 0, len(sess.Members))
	for _, sl := range sess.Members {
		slots = append(slots, sl)
	}
	sort.Ints(slots)
	for _, slot := range slots {
		mc := e.M.Conns[slot]
		if mc == nil || !mc.joined() || mc.Sess != sess {
			continue
		}
		if len(mc.PendingPose) > 0 || len(mc.PendingComp) > 0 {
			mc.LastAct = at // consuming the released updates resets the idle timer
		}
		s := mc.Sess
		eids := make([]uint32, 0, len(mc.PendingPose))
		for id := range mc.PendingPose {
			eids = append(eids, id)
		}
		sort.Slice(eids, func(i, j int) bool { return eids[i] < eids[j] })
		for _, eid := range eids {
			st := mc.PendingPose[eid]
			delete(mc.PendingPose, eid)
			en, ok := s.Ents[eid]
			if !ok {
				e.label("pose_unknown_entity")
				continue
			}
			if en.Owner != mc.Pid {
				e.label("pose_foreign")
				if _, live := s.Members[en.Owner]; !live {
					e.label("foreign_attempt_owner_gone")
				}
				continue
			}
			if st.Pose == nil || st.NoSub {
				e.label("pose_without_pose")
				continue
			}
			e.label("pose_applied")
			en.Pose = *st.Pose
			if ve := mc.View.Ents[eid]; ve != nil {
				ve.Pose = *st.Pose
			}
			want := *st.Pose
			ots := &timestamppb.Timestamp{Seconds: st.TSec, Nanos: st.TNano}
			e.expectRelay(s, mc.Pid, TPoseBcast, "C11,C02,C01", fmt.Sprintf("pose update of entity %d", eid), func(r Rx) string {
				b := r.M.(*hagallpb.EntityUpdatePoseBroadcast)
				if b.EntityId != eid {
					return "other entity"
				}
				if f32bits(b.Pose) != want {
					return fmt.Sprintf("pose %08x is not the latest pose sent %08x", f32bits(b.Pose), want)
				}
				if !sameTS(b.OriginTimestamp, ots) {
					return "origin timestamp is not the latest update's"
				}
				return ""
			})
		}
		keys := make([]CompKey, 0, len(mc.PendingComp))
		for k := range mc.PendingComp {
			keys = append(keys, k)
		}
		sort.Slice(keys, func(i, j int) bool {
			if keys[i].Tid != keys[j].Tid {
				return keys[i].Tid < keys[j].Tid
			}
			return keys[i].Eid < keys[j].Eid
		})
		for _, k := range keys {
			st := mc.PendingComp[k]
			delete(mc.PendingComp, k)
			if k.Tid == 0 || k.Eid == 0 {
				continue
			}
			if _, ok := s.Comps[k]; !ok {
				e.label("comp_update_absent")
				if s.hasSubs(k.Tid) {
					e.label("comp_update_absent_with_subscriber")
				}
				continue
			}
			e.label("comp_update_applied")
			e.noteCompChange(s, k.Tid)
			data := bodyOf(*st)
			if data == nil {
				data = []byte{}
			}
			cands[s] = appendCand(cands[s], k, data)
			s.Comps[k] = data
			if mc.View.CompDef[k.Tid] {
				mc.View.Comps[k] = data
			}
			var to []int
			for pid := range s.Subs[k.Tid] {
				if pid != mc.Pid {
					if sl, ok := s.Members[pid]; ok {
						to = append(to, sl)
					}
				}
			}
			sort.Ints(to)
			if len(to) > 0 {
				e.label("comp_update_relayed")
			}
			ots := &timestamppb.Timestamp{Seconds: st.TSec, Nanos: st.TNano}
			e.expectRelayTo(to, TCompUpdateBcast, "C13,C02,C12", fmt.Sprintf("update of component (%d,%d)", k.Tid, k.Eid), func(r Rx) string {
				c := r.M.(*hagallpb.EntityComponentUpdateBroadcast).EntityComponent
				if c == nil || c.EntityComponentTypeId != k.Tid || c.EntityId != k.Eid {
					return "other component"
				}
				if !bytes.Equal(c.Data, data) {
					return "data differs"
				}
				if !sameTS(r.M.(*hagallpb.EntityComponentUpdateBroadcast).OriginTimestamp, ots) {
					return "origin timestamp is not the update's"
				}
				return ""
			})
		}
	}
}

// ---------------------------------------------------------------------------
// custom messages (C14)

func (e *Exec) doCustom(mc *MConn, st Step) {
	body := bodyOf(st)
	pids := e.resolvePids(mc, st.Rcpts)
	ts := e.reqTS()
	e.D.Send(mc.Slot, &hagallpb.CustomMessage{Type: TCustom, Timestamp: ts, ParticipantIds: pids, Body: body})
	e.collect()
	if !mc.joined() {
		e.notJoined(mc, 0)
		return
	}
	e.stepTags = "C14"
	s := mc.Sess
	if len(body) > 10240 {
		e.label("custom_too_large")
		rx, ok := e.take(mc.Slot, isType(TError))
		if !ok {
			e.fail("C14,C04", "custom message with a body of %d bytes was not refused with ERROR_RESPONSE", len(body))
		} else if c := rx.M.(*hagallpb.ErrorResponse).Code; c != cTooLarge {
			e.fail("C14,C04", "custom message with a body of %d bytes refused with %v, expected TOO_LARGE", len(body), c)
		}
		e.unexpectedEnd(mc, "C14,C08")
		return
	}
	if len(body) >= 10238 {
		e.label("custom_at_limit")
	}
	var to []int
	if len(pids) == 0 {
		to = others(s, mc.Pid)
		e.label("custom_untargeted")
	} else {
		seen := map[uint32]bool{}
		hasDup, hasStranger, hasSelf := false, false, false
		for _, p := range pids {
			if seen[p] {
				hasDup = true
				continue
			}
			seen[p] = true
			if p == mc.Pid {
				hasSelf = true
				continue
			}
			if slot, ok := s.Members[p]; ok {
				to = append(to, slot)
			} else {
				hasStranger = true
			}
		}
		sort.Ints(to)
		e.label("custom_targeted")
		if hasDup && hasStranger && hasSelf {
			e.label("custom_dup_stranger_self")
		}
	}
	e.expectRelayTo(to, TCustomBcast, "C14,C02", "custom message", func(r Rx) string {
		b := r.M.(*hagallpb.CustomMessageBroadcast)
		if b.ParticipantId != mc.Pid {
			return fmt.Sprintf("stamped with participant %d, sender is %d", b.ParticipantId, mc.Pid)
		}
		if !bytes.Equal(b.Body, body) {
			return "body differs"
		}
		if !sameTS(b.OriginTimestamp, ts) {
			return "origin timestamp is not the request's"
		}
		return ""
	})
	e.unexpectedEnd(mc, "C14,C08")
}

// ---------------------------------------------------------------------------
// component types and components (C12, C13)

func (e *Exec) doTypeOps(mc *MConn, st Step, req uint32) {
	e.stepTags = "C12"
	switch st.Op {
	case OpTypeAdd:
		e.D.Send(mc.Slot, &hagallpb.EntityComponentTypeAddRequest{Type: TTypeAddReq, Timestamp: e.reqTS(), RequestId: req, EntityComponentTypeName: st.Name})
		e.collect()
		if !mc.joined() {
			e.notJoined(mc, req)
			return
		}
		s := mc.Sess
		if st.Name == "" {
			e.expectError(mc, req, "C04,C12", "type registration with an empty name", cBad)
			break
		}
		rx, ok := e.take(mc.Slot, isResp(TTypeAddResp, req))
		if !ok {
			e.fail("C04,C12", "type add %d not answered with TYPE_ADD_RESPONSE: %v", req, e.delta[mc.Slot])
			return
		}
		id := rx.M.(*hagallpb.EntityComponentTypeAddResponse).EntityComponentTypeId
		if known, ok := s.TypeByName[st.Name]; ok {
			e.label("type_add_again")
			if id != known {
				e.fail("C12,C10", "re-registering type %q returned id %d, it was registered as %d", st.Name, id, known)
			}
		} else {
			e.label("type_add")
			if other, ok := s.TypeByID[id]; ok {
				e.fail("C10,C12", "type %q was given id %d which already names type %q", st.Name, id, other)
				return
			}
			if id == 0 {
				e.fail("C10,C12", "type id 0 issued")
			}
			s.TypeByName[st.Name] = id
			s.TypeByID[id] = st.Name
			s.TypeOrder = append(s.TypeOrder, id)
		}
	case OpGetName:
		tid := e.resolveTyp(mc, st.Typ)
		e.D.Send(mc.Slot, &hagallpb.EntityComponentTypeGetNameRequest{Type: TGetNameReq, Timestamp: e.reqTS(), RequestId: req, EntityComponentTypeId: tid})
		e.collect()
		if !mc.joined() {
			e.notJoined(mc, req)
			return
		}
		name, ok := mc.Sess.TypeByID[tid]
		switch {
		case tid == 0:
			e.expectError(mc, req, "C04,C12", "get name of type id 0", cBad)
		case !ok:
			e.expectError(mc, req, "C04,C12", fmt.Sprintf("get name of unregistered type id %d", tid), cNotFound)
		default:
			rx, ok := e.take(mc.Slot, isResp(TGetNameResp, req))
			if !ok {
				e.fail("C04,C12", "get name %d not answered: %v", req, e.delta[mc.Slot])
			} else if got := rx.M.(*hagallpb.EntityComponentTypeGetNameResponse).EntityComponentTypeName; got != name {
				e.fail("C12", "type id %d resolves to name %q, registered as %q", tid, got, name)
			}
			e.label("get_name_ok")
		}
	case OpGetID:
		e.D.Send(mc.Slot, &hagallpb.EntityComponentTypeGetIdRequest{Type: TGetIDReq, Timestamp: e.reqTS(), RequestId: req, EntityComponentTypeName: st.Name})
		e.collect()
		if !mc.joined() {
			e.notJoined(mc, req)
			return
		}
		id, ok := mc.Sess.TypeByName[st.Name]
		switch {
		case st.Name == "":
			e.expectError(mc, req, "C04,C12", "get id of an empty type name", cBad)
		case !ok:
			e.expectError(mc, req, "C04,C12", fmt.Sprintf("get id of unregistered type %q", st.Name), cNotFound)
		default:
			rx, ok := e.take(mc.Slot, isResp(TGetIDResp, req))
			if !ok {
				e.fail("C04,C12", "get id %d not answered: %v", req, e.delta[mc.Slot])
			} else if got := rx.M.(*hagallpb.EntityComponentTypeGetIdResponse).EntityComponentTypeId; got != id {
				e.fail("C12", "type name %q resolves to id %d, registered as %d", st.Name, got, id)
			}
			e.label("get_id_ok")
		}
	}
	e.unexpectedEnd(mc, "C04,C08")
}

func (e *Exec) doCompAdd(mc *MConn, st Step, req uint32) {
	tid := e.resolveTyp(mc, st.Typ)
	eid := e.resolveEnt(mc, st.Ent)
	data := bodyOf(st)
	ts := e.reqTS()
	e.D.Send(mc.Slot, &hagallpb.EntityComponentAddRequest{Type: TCompAddReq, Timestamp: ts, RequestId: req, EntityComponentTypeId: tid, EntityId: eid, Data: data})
	e.collect()
	if !mc.joined() {
		e.notJoined(mc, req)
		return
	}
	e.stepTags = "C12,C13"
	s := mc.Sess
	k := CompKey{tid, eid}
	var codes []hagallpb.ErrorCode
	if tid == 0 || eid == 0 {
		codes = append(codes, cBad)
	} else {
		if _, ok := s.Ents[eid]; !ok {
			codes = append(codes, cNotFound)
		}
		if _, ok := s.TypeByID[tid]; !ok {
			codes = append(codes, cNotFound)
		}
		if _, ok := s.Comps[k]; ok {
			codes = append(codes, cConflict)
		}
	}
	if len(codes) > 0 {
		e.label("comp_add_refused")
		e.expectError(mc, req, "C04,C12", fmt.Sprintf("add of component (%d,%d)", tid, eid), codes...)
		e.unexpectedEnd(mc, "C04,C08")
		return
	}
	e.label("comp_add")
	e.noteCompChange(s, tid)
	if _, ok := e.take(mc.Slot, isResp(TCompAddResp, req)); !ok {
		e.fail("C04,C12", "component add %d not answered with COMP_ADD_RESPONSE: %v", req, e.delta[mc.Slot])
		return
	}
	if data == nil {
		data = []byte{}
	}
	s.Comps[k] = data
	if mc.View.CompDef[tid] {
		mc.View.Comps[k] = data
	}
	if s.hasSubs(tid) {
		e.label("comp_add_notified")
		e.expectRelay(s, mc.Pid, TCompAddBcast, "C13,C02,C12", fmt.Sprintf("add of component (%d,%d)", tid, eid), func(r Rx) string {
			c := r.M.(*hagallpb.EntityComponentAddBroadcast).EntityComponent
			if c == nil || c.EntityComponentTypeId != tid || c.EntityId != eid {
				return "other component"
			}
			if !bytes.Equal(c.Data, data) {
				return "data differs"
			}
			if !sameTS(r.M.(*hagallpb.EntityComponentAddBroadcast).OriginTimestamp, ts) {
				return "origin timestamp is not the request's"
			}
			return ""
		})
	} else {
		e.label("comp_add_no_subscriber")
	}
	e.unexpectedEnd(mc, "C04,C08")
}

func (e *Exec) doCompDel(mc *MConn, st Step, req uint32) {
	tid := e.resolveTyp(mc, st.Typ)
	eid := e.resolveEnt(mc, st.Ent)
	ts := e.reqTS()
	e.D.Send(mc.Slot, &hagallpb.EntityComponentDeleteRequest{Type: TCompDelReq, Timestamp: ts, RequestId: req, EntityComponentTypeId: tid, EntityId: eid})
	e.collect()
	if !mc.joined() {
		e.notJoined(mc, req)
		return
	}
	e.stepTags = "C12,C13"
	s := mc.Sess
	k := CompKey{tid, eid}
	_, has := s.Comps[k]
	switch {
	case tid == 0 || eid == 0:
		e.expectError(mc, req, "C04,C12", "component delete with a zero id", cBad)
	case !has:
		e.label("comp_del_absent")
		e.expectError(mc, req, "C04,C12", fmt.Sprintf("delete of component (%d,%d) which does not exist", tid, eid), cNotFound)
	default:
		e.label("comp_del")
		e.noteCompChange(s, tid)
		if _, ok := e.take(mc.Slot, isResp(TCompDelResp, req)); !ok {
			e.fail("C04,C12", "component delete %d not answered with COMP_DELETE_RESPONSE: %v", req, e.delta[mc.Slot])
			return
		}
		delete(s.Comps, k)
		delete(mc.View.Comps, k)
		if s.hasSubs(tid) {
			e.label("comp_del_notified")
			e.expectRelay(s, mc.Pid, TCompDelBcast, "C13,C02,C12", fmt.Sprintf("delete of component (%d,%d)", tid, eid), func(r Rx) string {
				c := r.M.(*hagallpb.EntityComponentDeleteBroadcast).EntityComponent
				if c == nil || c.EntityComponentTypeId != tid || c.EntityId != eid {
					return "other component"
				}
				if !sameTS(r.M.(*hagallpb.EntityComponentDeleteBroadcast).OriginTimestamp, ts) {
					return "origin timestamp is not the request's"
				}
				return ""
			})
		}
	}
	e.unexpectedEnd(mc, "C04,C08")
}

func (e *Exec) doCompList(mc *MConn, st Step, req uint32) {
	tid := e.resolveTyp(mc, st.Typ)
	e.listType(mc, tid, req)
}

func (e *Exec) listType(mc *MConn, tid uint32, req uint32) {
	e.D.Send(mc.Slot, &hagallpb.EntityComponentListRequest{Type: TCompListReq, Timestamp: e.reqTS(), RequestId: req, EntityComponentTypeId: tid})
	e.collect()
	if !mc.joined() {
		e.notJoined(mc, req)
		return
	}
	e.stepTags = "C12"
	if tid == 0 {
		e.expectError(mc, req, "C04,C12", "list of type id 0", cBad)
		e.unexpectedEnd(mc, "C04,C08")
		return
	}
	rx, ok := e.take(mc.Slot, isResp(TCompListResp, req))
	if !ok {
		e.fail("C04,C12", "component list %d not answered with COMP_LIST_RESPONSE: %v", req, e.delta[mc.Slot])
		return
	}
	e.label("comp_list")
	if e.Labels["comp_del"] > 0 || e.Labels["entity_del_with_attachments"] > 0 {
		e.label("comp_list_after_delete")
	}
	got := map[CompKey][]byte{}
	for _, c := range rx.M.(*hagallpb.EntityComponentListResponse).EntityComponents {
		k := CompKey{c.EntityComponentTypeId, c.EntityId}
		if _, dup := got[k]; dup {
			e.fail("C12", "list of type %d contains component (%d,%d) twice", tid, k.Tid, k.Eid)
		}
		if k.Tid != tid {
			e.fail("C12", "list of type %d contains component of type %d", tid, k.Tid)
		}
		got[k] = c.Data
	}
	if d := diffComps(got, mc.Sess.Comps, tid); d != "" {
		e.fail("C12,C01", "list of type %d differs from its current components: %s", tid, d)
	}
	// a subscribed client (re)initialises its view of the type from the list
	if mc.Sess.Subs[tid][mc.Pid] {
		for k := range mc.View.Comps {
			if k.Tid == tid {
				delete(mc.View.Comps, k)
			}
		}
		for k, d := range got {
			mc.View.Comps[k] = d
		}
		mc.View.CompDef[tid] = true
	}
	e.unexpectedEnd(mc, "C04,C08")
}

func (e *Exec) doSub(mc *MConn, st Step, req uint32) {
	tid := e.resolveTyp(mc, st.Typ)
	if st.Op == OpSub {
		e.D.Send(mc.Slot, &hagallpb.EntityComponentTypeSubscribeRequest{Type: TSubReq, Timestamp: e.reqTS(), RequestId: req, EntityComponentTypeId: tid})
	} else {
		e.D.Send(mc.Slot, &hagallpb.EntityComponentTypeUnsubscribeRequest{Type: TUnsubReq, Timestamp: e.reqTS(), RequestId: req, EntityComponentTypeId: tid})
	}
	e.collect()
	if !mc.joined() {
		e.notJoined(mc, req)
		return
	}
	e.stepTags = "C13"
	s := mc.Sess
	if tid == 0 {
		e.expectError(mc, req, "C04,C13", "subscribe/unsubscribe with type id 0", cBad)
		e.unexpectedEnd(mc, "C04,C08")
		return
	}
	if st.Op == OpSub {
		if _, ok := s.TypeByID[tid]; !ok {
			e.label("sub_unregistered")
			e.expectError(mc, req, "C04,C13", fmt.Sprintf("subscribe to unregistered type %d", tid), cNotFound)
			e.unexpectedEnd(mc, "C04,C08")
			return
		}
		if _, ok := e.take(mc.Slot, isResp(TSubResp, req)); !ok {
			e.fail("C04,C13", "subscribe %d not answered with SUBSCRIBE_RESPONSE: %v", req, e.delta[mc.Slot])
			return
		}
		e.label("sub")
		if s.Subs[tid] == nil {
			s.Subs[tid] = map[uint32]bool{}
		}
		s.Subs[tid][mc.Pid] = true
		if len(s.Subs[tid]) >= 2 {
			e.label("two_subscribers")
		}
		e.unexpectedEnd(mc, "C04,C08")
		// the client library follows a subscription with a list request,
		// which defines its view of that type
		if len(e.Viol) == 0 && !mc.Ended {
			e.leftovers(mc)
			e.actorAfter = mc.Sess
			e.annotate(mc.Slot)
			e.traceStep = 4*e.stepIdx + 3
			e.nextReq++
			e.listType(mc, tid, e.nextReq)
			e.stepTags = "C13,C12"
		}
		return
	}
	if _, ok := e.take(mc.Slot, isResp(TUnsubResp, req)); !ok {
		e.fail("C04,C13", "unsubscribe %d not answered with UNSUBSCRIBE_RESPONSE: %v", req, e.delta[mc.Slot])
		return
	}
	if s.Subs[tid][mc.Pid] {
		e.label("unsub")
		e.noteUnsub(s, tid)
	} else {
		e.label("unsub_not_subscribed")
	}
	delete(s.Subs[tid], mc.Pid)
	delete(mc.View.CompDef, tid)
	for k := range mc.View.Comps {
		if k.Tid == tid {
			delete(mc.View.Comps, k)
		}
	}
	e.unexpectedEnd(mc, "C04,C08")
}

// ---------------------------------------------------------------------------
// vikja entity actions, odal asset instances (C16)

func tsBefore(aSec int64, aNano int32, bSec int64, bNano int32) bool {
	return time.Unix(aSec, int64(aNano)).Before(time.Unix(bSec, int64(bNano)))
}

func (e *Exec) doAction(mc *MConn, st Step, req uint32) {
	eid := e.resolveEnt(mc, st.Ent)
	var act *vikjapb.EntityAction
	if !st.NoSub {
		act = &vikjapb.EntityAction{EntityId: eid, Name: st.Name, Data: bodyOf(st)}
		if !st.NoTS {
			act.Timestamp = &timestamppb.Timestamp{Seconds: st.TSec, Nanos: st.TNano}
		}
	}
	ts := e.reqTS()
	e.D.Send(mc.Slot, &vikjapb.EntityActionRequest{Type: TActionReq, Timestamp: ts, RequestId: req, EntityAction: act})
	e.collect()
	if !e.Cfg.has("vikja") {
		e.label("action_module_absent")
		return
	}
	if !mc.joined() {
		e.notJoined(mc, req)
		return
	}
	e.stepTags = "C16"
	s := mc.Sess
	refuse := func(why string, codes ...hagallpb.ErrorCode) {
		e.label("action_refused")
		e.expectError(mc, req, "C04,C16", why, codes...)
		e.unexpectedEnd(mc, "C04,C08")
	}
	if act == nil || act.Name == "" || act.Timestamp == nil {
		refuse("entity action without action, name or timestamp", cBad)
		return
	}
	if _, ok := s.Ents[eid]; !ok {
		refuse(fmt.Sprintf("entity action on entity %d which does not exist", eid), cBad, cNotFound)
		return
	}
	if old, ok := s.Actions[eid][st.Name]; ok {
		if tsBefore(st.TSec, st.TNano, old.Sec, old.Nano) {
			e.label("action_older_refused")
			refuse(fmt.Sprintf("entity action (%d,%q) older than the stored one", eid, st.Name), cBad, cConflict)
			return
		}
		if st.TSec == old.Sec && st.TNano == old.Nano {
			e.label("action_equal_ts")
		} else {
			e.label("action_newer")
		}
	}
	e.label("action_set")
	if _, ok := e.take(mc.Slot, isResp(TActionResp, req)); !ok {
		e.fail("C04,C16", "entity action %d not answered with ENTITY_ACTION_RESPONSE: %v", req, e.delta[mc.Slot])
		return
	}
	data := act.Data
	ma := MAction{Sec: st.TSec, Nano: st.TNano, Data: data}
	if s.Actions[eid] == nil {
		s.Actions[eid] = map[string]MAction{}
	}
	s.Actions[eid][st.Name] = ma
	if mc.View.Actions[eid] == nil {
		mc.View.Actions[eid] = map[string]MAction{}
	}
	mc.View.Actions[eid][st.Name] = ma
	e.expectRelay(s, mc.Pid, TActionBcast, "C16,C02", fmt.Sprintf("entity action (%d,%q)", eid, st.Name), func(r Rx) string {
		b := r.M.(*vikjapb.EntityActionBroadcast)
		a := b.EntityAction
		if a == nil || a.EntityId != eid || a.Name != st.Name {
			return "other action"
		}
		if a.GetTimestamp().GetSeconds() != st.TSec || a.GetTimestamp().GetNanos() != st.TNano || !bytes.Equal(a.Data, data) {
			return "action timestamp or data differ from the request"
		}
		if !sameTS(b.OriginTimestamp, ts) {
			return "origin timestamp is not the request's"
		}
		return ""
	})
	e.unexpectedEnd(mc, "C04,C08")
}

func (e *Exec) doAsset(mc *MConn, st Step, req uint32) {
	eid := e.resolveEnt(mc, st.Ent)
	ts := e.reqTS()
	e.D.Send(mc.Slot, &odalpb.AssetInstanceAddRequest{Type: TAssetReq, Timestamp: ts, RequestId: req, EntityId: eid, AssetId: st.Name})
	e.collect()
	if !e.Cfg.has("odal") {
		e.label("asset_module_absent")
		return
	}
	if !mc.joined() {
		e.notJoined(mc, req)
		return
	}
	e.stepTags = "C16,C05"
	s := mc.Sess
	var codes []hagallpb.ErrorCode
	en, ok := s.Ents[eid]
	if st.Name == "" {
		codes = append(codes, cBad)
	}
	if !ok {
		codes = append(codes, cNotFound)
	} else if en.Owner != mc.Pid {
		codes = append(codes, cUnauth)
		e.label("asset_foreign")
		if _, live := s.Members[en.Owner]; !live {
			e.label("foreign_attempt_owner_gone")
		}
	}
	if len(codes) > 0 {
		e.label("asset_refused")
		e.expectError(mc, req, "C04,C16,C05", fmt.Sprintf("asset add on entity %d by participant %d", eid, mc.Pid), codes...)
		e.unexpectedEnd(mc, "C04,C08")
		return
	}
	rx, ok := e.take(mc.Slot, isResp(TAssetResp, req))
	if !ok {
		e.fail("C04,C16", "asset add %d not answered with ASSET_INSTANCE_ADD_RESPONSE: %v", req, e.delta[mc.Slot])
		return
	}
	inst := rx.M.(*odalpb.AssetInstanceAddResponse).AssetInstanceId
	if s.AssetIDsEver[inst] {
		e.fail("C10,C16", "asset instance id %d issued twice in session %q", inst, s.ID)
		return
	}
	s.AssetIDsEver[inst] = true
	if _, had := s.Assets[eid]; had {
		e.label("asset_replaced")
	}
	e.label("asset_add")
	ma := MAsset{Inst: inst, AssetID: st.Name, Pid: mc.Pid}
	s.Assets[eid] = ma
	mc.View.Assets[eid] = ma
	e.expectRelay(s, mc.Pid, TAssetBcast, "C16,C02", fmt.Sprintf("asset add on entity %d", eid), func(r Rx) string {
		b := r.M.(*odalpb.AssetInstanceAddBroadcast)
		a := b.AssetInstance
		if a == nil || a.EntityId != eid || a.Id != inst || a.AssetId != st.Name || a.ParticipantId != mc.Pid {
			return "asset instance fields differ"
		}
		if !sameTS(b.OriginTimestamp, ts) {
			return "origin timestamp is not the request's"
		}
		return ""
	})
	e.unexpectedEnd(mc, "C04,C08")
}

// ---------------------------------------------------------------------------
// dagaz requests: here only "answered exactly once with the matching type";
// the content is decided by the C20 checks.

func pt(f []uint32, i int) *dagazpb.Point {
	g := func(j int) float32 {
		if i+j < len(f) {
			return float32frombits(f[i+j])
		}
		return 0
	}
	return &dagazpb.Point{X: g(0), Y: g(1), Z: g(2)}
}

func (e *Exec) doDagaz(mc *MConn, st Step, req uint32) {
	var want int32
	switch st.Op {
	case OpQuad:
		var qs []*dagazpb.Quad
		for i := 0; i+5 < len(st.F); i += 6 {
			q := &dagazpb.Quad{Center: pt(st.F, i), Extents: pt(st.F, i+3)}
			if st.NoSub {
				q.Extents = nil
			}
			qs = append(qs, q)
		}
		e.D.Send(mc.Slot, &dagazpb.DagazQuadSample{Type: TQuadSample, Timestamp: e.reqTS(), Samples: qs})
		want = -1
	case OpGround:
		ray := &dagazpb.Ray{From: pt(st.F, 0), To: pt(st.F, 3)}
		if st.NoSub {
			ray = nil
		}
		e.D.Send(mc.Slot, &dagazpb.DagazGetGroundPlaneRequest{Type: TGroundReq, Timestamp: e.reqTS(), RequestId: req, Ray: ray})
		want = TGroundResp
	case OpRegion:
		mn, mx := pt(st.F, 0), pt(st.F, 3)
		if st.NoSub {
			mx = nil
		}
		e.D.Send(mc.Slot, &dagazpb.DagazGetRegionRequest{Type: TRegionReq, Timestamp: e.reqTS(), RequestId: req, Min: mn, Max: mx})
		want = TRegionResp
	case OpDebug:
		e.D.Send(mc.Slot, &dagazpb.DagazGetDebugInfoRequest{Type: TDebugReq, Timestamp: e.reqTS(), RequestId: req})
		want = TDebugResp
	}
	e.collect()
	if st.Op == OpQuad && mc.joined() && e.Cfg.has("dagaz") {
		mc.Sess.QuadSteps++
	}
	if !e.Cfg.has("dagaz") || want == -1 {
		return
	}
	if !mc.joined() {
		e.notJoined(mc, req)
		return
	}
	e.label("dagaz_query")
	e.stepTags = "C04"
	rx, ok := e.take(mc.Slot, isResp(want, req))
	if !ok {
		e.fail("C04", "ground-plane query %d (%s) not answered with %s: %v", req, st.Op, typeName(want), e.delta[mc.Slot])
	} else if mc.Sess.QuadSteps == 0 {
		// isolation of the ground-plane index: the grid belongs to the session instance; as long
		// as no member of this instance has sent a sample, every answer must be that of an empty
		// grid - whatever was stored in other sessions, earlier instances of the id or earlier
		// servers of this process
		e.label("dagaz_query_in_sampleless_session")
		switch m := rx.M.(type) {
		case *dagazpb.DagazGetGroundPlaneResponse:
			if g := m.GetGround(); g != nil && g.GetExtents() != nil && (g.GetExtents().GetX() != 0 || g.GetExtents().GetZ() != 0) {
				e.fail("C03,C20", "ground-plane query %d in a session in which nobody ever sent a sample is answered with a plane: %v", req, g)
			}
		case *dagazpb.DagazGetRegionResponse:
			if len(m.GetQuads()) != 0 {
				e.fail("C03,C20", "region query %d in a session in which nobody ever sent a sample returns %d planes: %v", req, len(m.GetQuads()), m.GetQuads())
			}
		case *dagazpb.DagazGetDebugInfoResponse:
			if m.GetGridPlaneCount() != 0 || m.GetGridMergeCount() != 0 {
				e.fail("C03,C20", "debug info %d of a session in which nobody ever sent a sample counts %d planes, %d merges", req, m.GetGridPlaneCount(), m.GetGridMergeCount())
			}
		}
	}
	e.unexpectedEnd(mc, "C04,C08")
}

// ---------------------------------------------------------------------------
// receipts: answered exactly once - accepted, bad request (empty field) or
// too busy (queue full). The handler then may end the connection.

func (e *Exec) doReceipt(mc *MConn, st Step, req uint32) {
	e.D.Send(mc.Slot, &hagallpb.ReceiptRequest{Type: TReceiptReq, Timestamp: e.reqTS(), RequestId: req, Receipt: st.Name, Hash: st.Hash, Signature: st.Sig})
	e.collect()
	e.stepTags = "C19"
	q := e.D.ReceiptQueue()
	switch {
	case st.Name == "" || len(st.Hash) == 0 || len(st.Sig) == 0:
		e.label("receipt_empty_field")
		e.expectError(mc, req, "C04,C19", "receipt with an empty field", cBad)
		e.mayEnd(mc, "C19")
	case e.M.Receipts >= cap(q):
		e.label("receipt_queue_full")
		e.expectError(mc, req, "C04,C19", "receipt while the queue is full", cBusy)
		e.mayEnd(mc, "C19")
	default:
		e.label("receipt_accepted")
		if _, ok := e.take(mc.Slot, isResp(TReceiptResp, req)); !ok {
			e.fail("C04,C19", "receipt %d not answered with RECEIPT_RESPONSE: %v", req, e.delta[mc.Slot])
			return
		}
		e.M.Receipts++
		if len(q) != e.M.Receipts {
			e.fail("C19", "receipt queue holds %d receipts, %d were accepted", len(q), e.M.Receipts)
		}
		e.unexpectedEnd(mc, "C04,C19,C08")
	}
}

func appendCand(m map[CompKey][][]byte, k CompKey, d []byte) map[CompKey][][]byte {
	if m == nil {
		m = map[CompKey][][]byte{}
	}
	m[k] = append(m[k], d)
	return m
}

// reconcileCompConflicts: when several members updated the same component in
// the same frame, which update is processed last is not specified; the model
// adopts the server's value if it is one of the candidates.
func (e *Exec) reconcileCompConflicts(cands map[*MSession]map[CompKey][][]byte) {
	store := e.D.Store()
	for s, m := range cands {
		for k, ds := range m {
			if len(ds) < 2 {
				continue
			}
			e.label("comp_update_conflict_same_frame")
			ss, ok := store.GetByGlobalID(s.ID)
			if !ok {
				continue
			}
			for _, c := range ss.GetEntityComponents().List(k.Tid) {
				if c.EntityId != k.Eid {
					continue
				}
				for _, d := range ds {
					if bytes.Equal(d, c.Data) {
						s.Comps[k] = d
						// the sender of the winning update knows its own value; other senders
						// that subscribe received the winner's broadcast after their own
						for _, slot := range s.Members {
							if mc := e.M.Conns[slot]; mc != nil && mc.View != nil && mc.View.CompDef[k.Tid] {
								mc.View.Comps[k] = d
							}
						}
					}
				}
			}
		}
	}
}

// ---------------------------------------------------------------------------
// hostile client behaviour (C08): undecodable frames, text frames, frames
// whose typed body does not decode, bursts, silence, stalls, aborts.

// Hostile is implemented by drivers that own a real connection.
type Hostile interface {
	SendText(slot int, s string)
	SendNoWait(slot int, b []byte) error
	SendBurst(slot int, frames [][]byte)
	Settle()
	Stall(slot int)
	Abort(slot int)
}

// badTyped builds a frame whose envelope (type, timestamp) decodes but whose
// typed body does not: the handler (or the dispatcher) returns an error.
func (e *Exec) badTyped(kind int) []byte {
	ts := e.reqTS()
	env := func(t int32) []byte {
		b, _ := proto.Marshal(&hagallpb.Msg{Type: hagallpb.MsgType(t), Timestamp: ts})
		return b
	}
	switch kind % 4 {
	case 0: // ENTITY_ADD_REQUEST, field 3 (pose) is not a valid sub-message
		return append(env(TEntityAddReq), 0x1a, 0x02, 0x0d, 0x01)
	case 1: // PARTICIPANT_JOIN_REQUEST, field 3 (session id) is not valid UTF-8
		return append(env(TJoinReq), 0x1a, 0x02, 0xff, 0xfe)
	case 2: // ENTITY_UPDATE_POSE, field 4 (pose) truncated: fails in the dispatcher
		return append(env(TPose), 0x22, 0x03, 0x0d, 0x00, 0x00)
	default: // TYPE_ADD_REQUEST, field 3 (name) is not valid UTF-8
		return append(env(TTypeAddReq), 0x1a, 0x01, 0xc0)
	}
}

// badTypedAny: kinds 0-3 as badTyped; 4-12 cover every other request whose body can fail to decode
// although the frame's envelope (type, timestamp) is fine: an invalid UTF-8 string, a malformed
// packed list or an invalid sub-message in a field >= 3. (Requests made of integers and byte
// strings only cannot fail to decode once the envelope has.) module != "": the message belongs to
// a module - it reaches the module's decoder only from a connection that is in a session and when
// the module is loaded; otherwise it is dropped.
func (e *Exec) badTypedAny(kind int) (b []byte, module string) {
	if kind%13 < 4 {
		return e.badTyped(kind % 13), ""
	}
	ts := e.reqTS()
	env := func(t int32) []byte {
		b, _ := proto.Marshal(&hagallpb.Msg{Type: hagallpb.MsgType(t), Timestamp: ts})
		return b
	}
	badString := func(field byte) []byte { return []byte{field<<3 | 2, 0x01, 0xc0} }
	badSub := func(field byte) []byte { return []byte{field<<3 | 2, 0x02, 0x0d, 0x01} }
	switch kind % 13 {
	case 4: // SIGNED_LATENCY_REQUEST, wallet address (4) not UTF-8
		return append(env(TSignedLatencyReq), badString(4)...), ""
	case 5: // CUSTOM_MESSAGE, packed participant ids (3) with an unterminated varint
		return append(env(TCustom), 0x1a, 0x01, 0x80), ""
	case 6: // ENTITY_COMPONENT_TYPE_GET_ID_REQUEST, name (3) not UTF-8
		return append(env(TGetIDReq), badString(3)...), ""
	case 7: // RECEIPT_REQUEST, receipt (3) not UTF-8
		return append(env(TReceiptReq), badString(3)...), ""
	case 8: // vikja ENTITY_ACTION_REQUEST, entity action (3) not a valid sub-message
		return append(env(TActionReq), badSub(3)...), "vikja"
	case 9: // odal ASSET_INSTANCE_ADD_REQUEST, asset id (4) not UTF-8
		return append(env(TAssetReq), badString(4)...), "odal"
	case 10: // dagaz QUAD_SAMPLE, samples (4) holds an invalid quad
		return append(env(TQuadSample), badSub(4)...), "dagaz"
	case 11: // dagaz GET_GROUND_PLANE_REQUEST, ray (3) invalid
		return append(env(TGroundReq), badSub(3)...), "dagaz"
	default: // dagaz GET_REGION_REQUEST, min (3) invalid
		return append(env(TRegionReq), badSub(3)...), "dagaz"
	}
}

func (e *Exec) doHostile(mc *MConn, st Step, req uint32) {
	h, ok := e.D.(interface{ Inner() Driver })
	var hd Hostile
	if ok {
		hd, _ = h.Inner().(Hostile)
	}
	if hd == nil {
		return // the handler-level driver has no connection to abuse
	}
	e.stepTags = "C08"
	switch st.Op {
	case OpGarbage:
		b := st.Raw
		if _, decodes := bytesToWire(b); decodes {
			e.label("garbage_decodes_skipped")
			return
		}
		e.label("garbage_frame")
		e.D.SendBytes(mc.Slot, b)
		e.collect()
		e.expectEnded(mc, "C08,C06", "an undecodable frame")
	case OpText:
		e.label("text_frame")
		hd.SendText(mc.Slot, st.Name)
		e.collect()
		e.expectEnded(mc, "C08,C06", "a text frame")
	case OpBadTyped:
		b, module := e.badTypedAny(int(st.Count))
		if module != "" && (!mc.joined() || !e.Cfg.has(module)) {
			// never reaches a decoder: dropped, nothing happens
			e.label("bad_typed_module_frame_dropped")
			e.D.SendBytes(mc.Slot, b)
			e.collect()
			e.unexpectedEnd(mc, "C08,C04")
			return
		}
		e.label("bad_typed_frame")
		e.label(fmt.Sprintf("bad_typed_kind_%d", int(st.Count)%13))
		e.D.SendBytes(mc.Slot, b)
		e.collect()
		e.expectEnded(mc, "C08,C06", "a frame whose body does not decode")
	case OpBurstBad:
		k := int(st.Count)
		if k < 1 {
			k = 1
		}
		e.label("burst_bad")
		if k >= 9 {
			e.label("burst_bad_9plus")
		}
		var frames [][]byte
		for i := 0; i < k; i++ {
			frames = append(frames, e.badTyped(int(st.Flag)+i*int(st.TNano)))
		}
		hd.SendBurst(mc.Slot, frames)
		hd.Settle()
		e.collect()
		e.expectEnded(mc, "C08,C06", fmt.Sprintf("a burst of %d failing requests", k))
	case OpBurstPing:
		k := int(st.Count)
		if k < 1 {
			k = 1
		}
		e.label("burst_ping")
		var ids []uint32
		var frames [][]byte
		for i := 0; i < k; i++ {
			e.nextReq++
			ids = append(ids, e.nextReq)
			b, _ := proto.Marshal(&hagallpb.Request{Type: TPingReq, Timestamp: e.reqTS(), RequestId: e.nextReq})
			frames = append(frames, b)
		}
		hd.SendBurst(mc.Slot, frames)
		hd.Settle()
		e.collect()
		for _, id := range ids {
			if _, ok := e.take(mc.Slot, isResp(TPingResp, id)); !ok {
				e.fail("C08,C04", "ping %d of a burst of %d was not answered", id, k)
				return
			}
		}
		mc.LastAct = time.Now()
	case OpSilence:
		// nobody sends anything for a while; time passes frame by frame
		n := int(st.Count)
		e.label("silence")
		for i := 0; i < n && len(e.Viol) == 0; i++ {
			e.advance(e.D.Frame())
			e.after(nil)
		}
	case OpStall:
		if !mc.Stalled {
			e.label("stall")
			hd.Stall(mc.Slot)
			mc.Stalled = true
		}
	case OpAbort:
		e.label("abort")
		hd.Abort(mc.Slot)
		e.collect()
		e.departure(mc, "C08")
		mc.Ended = true
	}
}

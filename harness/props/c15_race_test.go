package props

import (
	"context"
	"encoding/json"
	"fmt"
	"net/http"
	"net/http/httptest"
	"net/url"
	"os"
	"runtime"
	"sync"
	"sync/atomic"
	"testing"
	"time"

	hds "github.com/aukilabs/hagall-common/hdsclient"
	hagallhttp "github.com/aukilabs/hagall/http"
	"golang.org/x/net/websocket"
	"pgregory.net/rapid"
)

// ---------------------------------------------------------------------------
// C15 while the discovery service re-registers the server: one goroutine keeps
// issuing / withdrawing / rotating the secret (SetServerData, exactly what the
// /registrations callback does), 2-6 goroutines present tokens through both
// entry points at the same time. Real threads, -race binary.
//
// Oracle (by construction, as in TestC15Auth):
//   * a token that is not sound (expired, alg none, ...) is never admitted;
//   * a token signed with the EMPTY key, or with a secret that was never
//     issued, is never admitted - whatever the interleaving, because "no
//     secret" admits nobody and a secret that was never current admits nobody;
//   * a sound token signed with secret S is admitted only if S was the current
//     secret at some instant between the start and the end of the request
//     (the rotation log is written before SetServerData is called and marked
//     after it returned, so the set of possibly-current secrets is exact);
//   * if no rotation overlapped the request, admission must equal the
//     sequential reference exactly (both directions).

type c15rCase struct {
	Rotation   []int `json:"rotation"` // indices into the secret table (0 = no secret)
	PauseUs    int   `json:"pause_us"`
	Presenters [][]c15rReq `json:"presenters"`
	Rounds     int   `json:"rounds"`
}

type c15rReq struct {
	Kind    string `json:"kind"` // A | B | empty_key | never_issued | expired_A | none_alg
	Carrier string `json:"carrier"`
	Entry   string `json:"entry"`
	Pad     int    `json:"pad"` // extra query parameters and cookies (makes the request slower to parse)
}

var c15rSecrets = []string{"", "c2VjcmV0LUE", "c2VjcmV0LUI"}

type rotLog struct {
	mu      sync.Mutex
	entries []uint8
	done    bool // the last entry's SetServerData has returned
}

func (l *rotLog) begin(s uint8) {
	l.mu.Lock()
	l.entries = append(l.entries, s)
	l.done = false
	l.mu.Unlock()
}
func (l *rotLog) end() {
	l.mu.Lock()
	l.done = true
	l.mu.Unlock()
}

// mark returns the index of the oldest entry that may still be in effect.
func (l *rotLog) mark() int {
	l.mu.Lock()
	defer l.mu.Unlock()
	lo := len(l.entries) - 1
	if !l.done {
		lo--
	}
	if lo < 0 {
		lo = 0
	}
	return lo
}

// possible returns which secrets may have been current since mark lo.
func (l *rotLog) possible(lo int) (set [3]bool, n int) {
	l.mu.Lock()
	defer l.mu.Unlock()
	for _, s := range l.entries[lo:] {
		set[s] = true
	}
	return set, len(l.entries) - lo
}

func runC15Race(c c15rCase) (viol string, labels map[string]int, overlapForged int) {
	labels = map[string]int{}
	client := hds.NewClient()
	wsCheck := hagallhttp.VerifyAuthToken(context.Background(), client)
	log := &rotLog{entries: []uint8{0}, done: true}
	var stop atomic.Bool
	var wg, rot sync.WaitGroup
	var vmu sync.Mutex
	note := func(v string) {
		vmu.Lock()
		if viol == "" {
			viol = v
		}
		vmu.Unlock()
	}
	rot.Add(1)
	go func() {
		defer rot.Done()
		for i := 0; !stop.Load(); i++ {
			s := uint8(c.Rotation[i%len(c.Rotation)])
			log.begin(s)
			client.SetServerData("server-1", c15rSecrets[s])
			log.end()
			if c.PauseUs > 0 {
				time.Sleep(time.Duration(c.PauseUs) * time.Microsecond)
			} else {
				runtime.Gosched()
			}
		}
	}()
	var lmu sync.Mutex
	for pi, reqs := range c.Presenters {
		wg.Add(1)
		go func(pi int, reqs []c15rReq) {
			defer wg.Done()
			entered := false
			protected := hagallhttp.VerifyAuthTokenHandler(client, func(w http.ResponseWriter, r *http.Request) { entered = true; w.WriteHeader(http.StatusOK) })
			local := map[string]int{}
			for round := 0; round < c.Rounds; round++ {
				for ri, rq := range reqs {
					spec := tokSpec{HdrAlg: "HS256", MacAlg: "HS256", Exp: 3600, Iat: -30}
					keyIdx := -1
					switch rq.Kind {
					case "A":
						spec.Key, keyIdx = c15rSecrets[1], 1
					case "B":
						spec.Key, keyIdx = c15rSecrets[2], 2
					case "empty_key":
						spec.Key = ""
					case "never_issued":
						spec.Key = "bmV2ZXItaXNzdWVk"
					case "expired_A":
						spec.Key, spec.Exp = c15rSecrets[1], -3600
					case "none_alg":
						spec.Key, spec.HdrAlg, spec.MacAlg = c15rSecrets[1], "none", ""
					}
					tok, sound := buildToken(spec, time.Now())
					q := url.Values{}
					req := httptest.NewRequest(http.MethodGet, "http://relay.example/", nil)
					for k := 0; k < rq.Pad; k++ {
						q.Set(fmt.Sprintf("p%d", k), "0123456789abcdef0123456789abcdef")
						req.AddCookie(&http.Cookie{Name: fmt.Sprintf("c%d", k), Value: "0123456789abcdef"})
					}
					switch rq.Carrier {
					case "query":
						q.Set("access_token", tok)
					case "cookie":
						req.AddCookie(&http.Cookie{Name: "access_token", Value: tok})
					default:
						req.Header.Set("Authorization", "Bearer "+tok)
					}
					req.URL.RawQuery = q.Encode()
					lo := log.mark()
					var admitted bool
					if rq.Entry == "ws" {
						admitted = wsCheck(&websocket.Config{}, req) == nil
					} else {
						entered = false
						rec := httptest.NewRecorder()
						protected(rec, req)
						admitted = entered
						if !entered && rec.Code != http.StatusUnauthorized {
							note(fmt.Sprintf("presenter %d request %d (%+v): rejected with status %d instead of 401", pi, ri, rq, rec.Code))
						}
					}
					set, span := log.possible(lo)
					local["requests"]++
					if span > 1 {
						local["requests_overlapping_a_rotation"]++
						if rq.Kind == "empty_key" && set[0] && (set[1] || set[2]) {
							local["empty_key_token_while_secret_withdrawn_or_reissued"]++
						}
					}
					if admitted {
						local["admitted"]++
					}
					may := sound && keyIdx > 0 && set[keyIdx]
					must := sound && keyIdx > 0 && span == 1 && set[keyIdx]
					if admitted && !may {
						note(fmt.Sprintf("presenter %d request %d (%+v): ADMITTED although the token is %s; secrets possibly current during the request: none=%v A=%v B=%v (%d rotation steps overlapped)", pi, ri, rq, map[bool]string{true: "signed with a key that was not the current secret at any time during the request", false: "not sound"}[sound], set[0], set[1], set[2], span-1))
					}
					if !admitted && must {
						note(fmt.Sprintf("presenter %d request %d (%+v): rejected although the token is sound for the only secret current during the request", pi, ri, rq))
					}
				}
			}
			lmu.Lock()
			for k, v := range local {
				labels[k] += v
			}
			lmu.Unlock()
		}(pi, reqs)
	}
	wg.Wait()
	stop.Store(true)
	rot.Wait()
	return viol, labels, labels["empty_key_token_while_secret_withdrawn_or_reissued"]
}

func TestC15Race(t *testing.T) {
	col := NewCollector("C15", "R", "real threads, -race binary: one goroutine keeps re-registering (SetServerData with no secret / A / B in a generated cyclic order, pausing 0-200 us), 2-6 goroutines present tokens (signed with A, B, the empty key, a never-issued key, expired, alg none; header/query/cookie; padded with 0-60 extra parameters and cookies; both entry points) for 20-60 rounds; a token is admitted only if sound and signed with a secret that was current at some instant during the request (exact rotation log), must be admitted if no rotation overlapped, and tokens signed with the empty or a never-issued key are never admitted; non-trivial = distinct case in which a token signed with the empty key was presented while the secret was being withdrawn or re-issued")
	t.Cleanup(col.Write)
	if rp := os.Getenv("VERIF_REPLAY"); rp != "" {
		var c c15rCase
		if err := readJSON(rp, &c); err != nil || len(c.Presenters) == 0 {
			t.Skipf("replay file not usable: %v", err)
		}
		for i := 0; i < 20; i++ {
			if v, _, _ := runC15Race(c); v != "" {
				t.Fatalf("replay violates C15: %s", v)
			}
		}
		return
	}
	rapid.Check(t, func(rt *rapid.T) {
		c := c15rCase{PauseUs: pick(rt, "pause_us", []int{0, 0, 1, 5, 20, 50, 200}), Rounds: 20 + uni(rt, "rounds", 41)}
		n := 2 + uni(rt, "rotation_len", 7)
		c.Rotation = append(c.Rotation, 1, 0) // every cycle withdraws the secret at least once
		for i := 0; i < n; i++ {
			c.Rotation = append(c.Rotation, uni(rt, "rot", 3))
		}
		np := 2 + uni(rt, "presenters", 5)
		for p := 0; p < np; p++ {
			var reqs []c15rReq
			k := 2 + uni(rt, "reqs", 5)
			for i := 0; i < k; i++ {
				reqs = append(reqs, c15rReq{
					Kind:    pick(rt, "kind", []string{"empty_key", "empty_key", "empty_key", "A", "A", "B", "never_issued", "expired_A", "none_alg"}),
					Carrier: pick(rt, "carrier", []string{"header", "query", "cookie", "cookie"}),
					Entry:   pick(rt, "entry", []string{"http", "ws"}),
					Pad:     pick(rt, "pad", []int{0, 0, 5, 20, 60}),
				})
			}
			c.Presenters = append(c.Presenters, reqs)
		}
		v, labels, overlap := runC15Race(c)
		b, _ := json.Marshal(c)
		col.Case(string(b), v == "" && overlap > 0, labels, func() any { return c })
		for k, n := range labels {
			col.Labels["total_"+k] += n
		}
		if v != "" {
			col.Violations++
			saveCase("C15", c)
			rt.Fatalf("C15 violated: %s", v)
		}
	})
}

package props

import (
	"context"
	"crypto/hmac"
	"crypto/sha256"
	"crypto/sha512"
	"encoding/base64"
	"encoding/json"
	"fmt"
	"hash"
	"net/http"
	"net/http/httptest"
	"net/url"
	"os"
	"strings"
	"testing"
	"time"

	hds "github.com/aukilabs/hagall-common/hdsclient"
	hagallhttp "github.com/aukilabs/hagall/http"
	"golang.org/x/net/websocket"
	"pgregory.net/rapid"
)

// ---------------------------------------------------------------------------
// C15: only holders of a token that verifies against the CURRENT secret are
// admitted. The reference builds every token itself (own base64url / JSON /
// HMAC code) and knows by construction whether it must be admitted.

type tokSpec struct {
	HdrAlg string `json:"header_alg"`
	MacAlg string `json:"mac_alg"` // which HMAC actually signs ("" = no signature)
	Key    string `json:"key"`     // secret the token is signed with
	Exp    int    `json:"exp_off"` // seconds relative to now; 0 = claim absent
	Iat    int    `json:"iat_off"`
	Nbf    int    `json:"nbf_off"`
	Tamper string `json:"tamper"`
	Reuse  int    `json:"reuse"` // >0: present the token string issued at that earlier event again
}

type authEvent struct {
	SetSecret *string  `json:"set_secret,omitempty"`
	Tok       *tokSpec `json:"token,omitempty"`
	Carriers  []string `json:"carriers,omitempty"` // header, query, cookie, lower_bearer, basic
	Entry     string   `json:"entry,omitempty"`    // http | ws
	Method    string   `json:"method,omitempty"`   // HTTP method of the request ("" = GET)
}

var authMethods = []string{"GET", "GET", "POST", "POST", "OPTIONS", "OPTIONS", "HEAD", "PUT", "DELETE", "PATCH", "TRACE", "get", "PROPFIND"}

func b64(b []byte) string { return base64.RawURLEncoding.EncodeToString(b) }

func macFor(alg string) func() hash.Hash {
	switch alg {
	case "HS256":
		return sha256.New
	case "HS384":
		return sha512.New384
	case "HS512":
		return sha512.New
	}
	return nil
}

// buildToken returns the token string and whether, by construction, it is a
// well-formed token correctly signed with Key and time-valid.
func buildToken(s tokSpec, now time.Time) (tok string, sound bool) {
	hdr, _ := json.Marshal(map[string]string{"alg": s.HdrAlg, "typ": "JWT"})
	claims := map[string]any{"iss": "HDS", "app_key": "app", "jti": "id-1"}
	timeOK := true
	onlyIatLate := false
	if s.Exp != 0 {
		claims["exp"] = now.Unix() + int64(s.Exp)
		if s.Exp < 0 {
			timeOK = false
		}
	}
	if s.Nbf != 0 {
		claims["nbf"] = now.Unix() + int64(s.Nbf)
		if s.Nbf > 0 {
			timeOK = false
		}
	}
	if s.Iat != 0 {
		claims["iat"] = now.Unix() + int64(s.Iat)
		if s.Iat > 0 {
			// issued "in the future": tolerated up to 10 s, if nothing else is wrong
			if timeOK && s.Iat < 10 {
				onlyIatLate = true
			}
			timeOK = false
		}
	}
	pl, _ := json.Marshal(claims)
	signing := b64(hdr) + "." + b64(pl)
	var sig []byte
	if h := macFor(s.MacAlg); h != nil {
		m := hmac.New(h, []byte(s.Key))
		m.Write([]byte(signing))
		sig = m.Sum(nil)
	}
	sound = macFor(s.HdrAlg) != nil && s.HdrAlg == s.MacAlg && (timeOK || onlyIatLate)
	switch s.Tamper {
	case "":
	case "sig_bit":
		if len(sig) > 0 {
			sig[len(sig)/2] ^= 0x10
		}
		sound = false
	case "sig_removed":
		sig = nil
		sound = false
	case "sig_truncated":
		if len(sig) > 0 {
			sig = sig[:len(sig)-1]
		}
		sound = false
	case "payload_edited":
		claims["app_key"] = "other"
		pl2, _ := json.Marshal(claims)
		signing = b64(hdr) + "." + b64(pl2)
		sound = false
	case "header_edited":
		hdr2, _ := json.Marshal(map[string]string{"alg": s.HdrAlg, "typ": "JWT", "kid": "1"})
		signing = b64(hdr2) + "." + b64(pl)
		sound = false
	case "two_segments":
		return signing, false
	case "four_segments":
		return signing + "." + b64(sig) + "." + b64(sig), false
	case "not_base64":
		return "!!!." + b64(pl) + "." + b64(sig), false
	case "padded":
		return base64.URLEncoding.EncodeToString(hdr) + "=." + b64(pl) + "." + b64(sig), false
	case "payload_not_json":
		signing = b64(hdr) + "." + b64([]byte("not json"))
		if h := macFor(s.MacAlg); h != nil {
			m := hmac.New(h, []byte(s.Key))
			m.Write([]byte(signing))
			sig = m.Sum(nil)
		}
		sound = false
	case "garbage":
		return "garbage", false
	case "empty":
		return "", false
	}
	return signing + "." + b64(sig), sound
}

// genTokSpec starts from a token that is admissible for the current secret
// and applies 0 (35%), 1 (45%) or 2 (20%) deviations.
func genTokSpec(t *rapid.T, secrets []string, cur string, issued int) tokSpec {
	s := tokSpec{HdrAlg: "HS256", MacAlg: "HS256", Exp: 3600, Iat: -30, Key: cur}
	if issued > 0 && uni(t, "reuse", 4) == 0 {
		s.Reuse = 1 + uni(t, "reuse_which", issued)
		return s
	}
	switch uni(t, "good_alg", 4) {
	case 0:
		s.HdrAlg, s.MacAlg = "HS384", "HS384"
	case 1:
		s.HdrAlg, s.MacAlg = "HS512", "HS512"
	}
	s.Iat = pick(t, "good_iat", []int{-30, -3600, 0, 5})
	s.Exp = pick(t, "good_exp", []int{3600, 30, 0})
	s.Nbf = pick(t, "good_nbf", []int{0, 0, -30})
	k := pick(t, "deviations", []int{0, 0, 0, 0, 0, 0, 0, 1, 1, 1, 1, 1, 1, 1, 1, 1, 2, 2, 2, 2})
	for i := 0; i < k; i++ {
		switch uni(t, "deviation", 8) {
		case 0:
			s.Key = pick(t, "key", secrets)
		case 1:
			s.HdrAlg, s.MacAlg = "none", ""
		case 2:
			s.HdrAlg = pick(t, "foreign_alg", []string{"RS256", "ES256", "PS256", "EdDSA", "HS999", "", "hs256"})
		case 3:
			s.MacAlg = pick(t, "other_mac", []string{"HS256", "HS384", "HS512"})
		case 4:
			s.Exp = pick(t, "bad_exp", []int{-30, -3600})
		case 5:
			s.Iat = pick(t, "bad_iat", []int{30, 3600, 5})
		case 6:
			s.Nbf = pick(t, "bad_nbf", []int{30, 3600})
		default:
			s.Tamper = pick(t, "tamper", []string{"sig_bit", "sig_removed", "sig_truncated", "payload_edited", "header_edited", "two_segments", "four_segments", "not_base64", "padded", "payload_not_json", "garbage", "empty"})
		}
	}
	return s
}

type authRun struct {
	labels map[string]int
	nt     bool
}

func runAuth(evs []authEvent) (viol string, ar authRun) {
	ar.labels = map[string]int{}
	client := hds.NewClient()
	// the two entry points are built once, as cmd/main.go does at start-up
	entered := false
	wsCheck := hagallhttp.VerifyAuthToken(context.Background(), client)
	protected := hagallhttp.VerifyAuthTokenHandler(client, func(w http.ResponseWriter, r *http.Request) { entered = true; w.WriteHeader(http.StatusOK) })
	secret := ""
	var issued []string
	var issuedSound []struct {
		key   string
		sound bool
	}
	for i, ev := range evs {
		if ev.SetSecret != nil {
			secret = *ev.SetSecret
			client.SetServerData("server-1", secret)
			ar.labels["set_secret"]++
			continue
		}
		now := time.Now()
		var tok string
		var sound bool
		var key string
		if ev.Tok.Reuse > 0 && ev.Tok.Reuse <= len(issued) {
			tok = issued[ev.Tok.Reuse-1]
			key, sound = issuedSound[ev.Tok.Reuse-1].key, issuedSound[ev.Tok.Reuse-1].sound
			ar.labels["token_presented_again"]++
		} else {
			tok, sound = buildToken(*ev.Tok, now)
			key = ev.Tok.Key
			issued = append(issued, tok)
			issuedSound = append(issuedSound, struct {
				key   string
				sound bool
			}{key, sound})
		}
		// the request
		u := "http://relay.example/"
		q := url.Values{}
		method := ev.Method
		if method == "" {
			method = http.MethodGet
		}
		req := httptest.NewRequest(method, u, nil)
		ar.labels["method_"+method]++
		carried := false
		for _, c := range ev.Carriers {
			switch c {
			case "header":
				req.Header.Set("Authorization", "Bearer "+tok)
				carried = carried || tok != ""
			case "query":
				q.Set("access_token", tok)
				carried = carried || tok != ""
			case "cookie":
				if tok != "" && !strings.ContainsAny(tok, " ;,\"\\") {
					req.AddCookie(&http.Cookie{Name: "access_token", Value: tok})
					carried = true
				}
			case "lower_bearer":
				if req.Header.Get("Authorization") == "" {
					req.Header.Set("Authorization", "bearer "+tok) // not a recognised carrier
				}
			case "basic":
				if req.Header.Get("Authorization") == "" {
					req.SetBasicAuth(tok, "")
				}
			}
		}
		req.URL.RawQuery = q.Encode()
		admit := carried && secret != "" && sound && key == secret
		if admit {
			ar.labels["admitted"]++
		} else {
			ar.labels["rejected"]++
		}
		if carried && sound && key == secret && secret == "" {
			ar.labels["sound_token_for_empty_secret_while_unregistered"]++
		}
		if carried && sound && key != secret {
			ar.labels["sound_token_for_another_secret"]++
		}
		oneOff := ev.Tok.Reuse == 0 && carried && key == secret && secret != "" && !sound
		validElsewhere := admit && len(ev.Carriers) > 0 && ev.Carriers[0] != "header"
		if oneOff || validElsewhere {
			ar.nt = true
		}
		switch ev.Entry {
		case "ws":
			err := wsCheck(&websocket.Config{}, req)
			if (err == nil) != admit {
				return fmt.Sprintf("event %d: WebSocket handshake check returned %v, the reference %s this token (secret %q, token signed with %q, sound=%v, carriers=%v, spec=%+v)", i, err, map[bool]string{true: "admits", false: "rejects"}[admit], secret, key, sound, ev.Carriers, *ev.Tok), ar
			}
		default:
			entered = false
			rec := httptest.NewRecorder()
			protected(rec, req)
			if entered != admit || (!admit && rec.Code != http.StatusUnauthorized) {
				return fmt.Sprintf("event %d: protected handler entered=%v status=%d, the reference %s this token (method %s, secret %q, token signed with %q, sound=%v, carriers=%v, spec=%+v)", i, entered, rec.Code, map[bool]string{true: "admits", false: "rejects"}[admit], method, secret, key, sound, ev.Carriers, *ev.Tok), ar
			}
		}
	}
	return "", ar
}

func TestC15Auth(t *testing.T) {
	col := NewCollector("C15", "inproc", "stateful sequences of 1-12 events against one hdsclient.Client: the discovery service issues a secret (none/A/B - unregistered, registered, rotated) or a request presents a token through VerifyAuthTokenHandler or the WebSocket handshake callback; tokens are built by the reference itself: HS256/384/512, alg none, foreign/unknown alg names, header/MAC mismatch, signed with the current, another or the empty secret, exp/iat/nbf at -3600,-30,+5,+30,+3600 s or absent, one of 12 tamperings (bit flipped in the MAC, signature removed/truncated, payload or header edited without re-signing, 2 or 4 segments, non-base64, padding, non-JSON payload, garbage, empty), or a token string presented earlier again (before/after rotation); carriers: Authorization Bearer, ?access_token=, cookie, and unrecognised ones, alone or combined; HTTP method GET/POST/OPTIONS/HEAD/PUT/DELETE/PATCH/TRACE/unknown; the inner handler must run / the callback return nil exactly when the token is by construction sound for the CURRENT secret, else 401 and not entered; non-trivial = distinct sequence with a token that differs from an admissible one in exactly one respect or an admissible token in a non-header carrier")
	t.Cleanup(col.Write)
	if rp := os.Getenv("VERIF_REPLAY"); rp != "" {
		var evs []authEvent
		if err := readJSON(rp, &evs); err != nil || len(evs) == 0 {
			t.Skipf("replay file not usable: %v", err)
		}
		if v, _ := runAuth(evs); v != "" {
			t.Fatalf("replay violates C15: %s", v)
		}
		return
	}
	rapid.Check(t, func(rt *rapid.T) {
		secrets := []string{"", "c2VjcmV0LUE", "c2VjcmV0LUI"}
		var evs []authEvent
		n := 1 + uni(rt, "n", 12)
		issued := 0
		cur := ""
		for i := 0; i < n; i++ {
			if (i == 0 && uni(rt, "start_registered", 4) != 0) || uni(rt, "rotate", 6) == 0 {
				s := pick(rt, "secret", secrets)
				if i == 0 {
					s = secrets[1]
				}
				cur = s
				evs = append(evs, authEvent{SetSecret: &s})
				continue
			}
			spec := genTokSpec(rt, secrets, cur, issued)
			if spec.Reuse == 0 {
				issued++
			}
			var carriers []string
			switch uni(rt, "carrier_kind", 8) {
			case 0, 1:
				carriers = []string{"header"}
			case 2, 3:
				carriers = []string{"query"}
			case 4:
				carriers = []string{"cookie"}
			case 5:
				carriers = []string{pick(rt, "c1", []string{"header", "query", "cookie"}), pick(rt, "c2", []string{"header", "query", "cookie"})}
			case 6:
				carriers = []string{pick(rt, "unrec", []string{"lower_bearer", "basic"})}
			default:
				carriers = nil
			}
			evs = append(evs, authEvent{Tok: &spec, Carriers: carriers, Entry: pick(rt, "entry", []string{"http", "ws"}), Method: pick(rt, "method", authMethods)})
		}
		v, ar := runAuth(evs)
		b, _ := json.Marshal(evs)
		col.Case(string(b), v == "" && ar.nt, ar.labels, func() any { return evs })
		if v != "" {
			col.Violations++
			saveCase("C15", evs)
			rt.Fatalf("C15 violated: %s", v)
		}
	})
}

package props

import "testing"

func lab(e *Exec, ls ...string) bool {
	for _, l := range ls {
		if e.Labels[l] == 0 {
			return false
		}
	}
	return true
}

func anyLab(e *Exec, ls ...string) bool {
	for _, l := range ls {
		if e.Labels[l] > 0 {
			return true
		}
	}
	return false
}

func TestC04Model(t *testing.T) {
	ModelCheck{
		Prop: "C04", Part: "H",
		Profile: Profile{Name: "c04", Setup: 12, MinSteps: 15, MaxSteps: 60, MaxConns: 5, W: weights(nil), JoinBias: 80, BigBody: 10, NilSub: false, Latency: true, Receipts: true},
		Rule:    "rapid-generated scripts (<=5 connections, <=50 steps + joins, any module subset) run on driver H; non-trivial = distinct script that reaches >=4 distinct (request kind, outcome) classes incl. >=1 refusal and >=1 not-joined request",
		NT: func(e *Exec, sc Script) bool {
			n := 0
			for _, l := range []string{"entity_add", "entity_del", "entity_del_unknown", "entity_del_foreign", "comp_add", "comp_add_refused", "comp_del", "comp_del_absent", "sub", "sub_unregistered", "unsub", "type_add", "type_add_again", "action_set", "action_refused", "asset_add", "asset_refused", "join_refused_not_found", "join_already_joined", "custom_too_large", "latency_bad_count", "receipt_accepted", "receipt_empty_field", "comp_list", "dagaz_query"} {
				if e.Labels[l] > 0 {
					n++
				}
			}
			return n >= 4 && anyLab(e, "entity_del_unknown", "entity_del_foreign", "comp_add_refused", "comp_del_absent", "sub_unregistered", "action_refused", "asset_refused", "join_refused_not_found") && lab(e, "not_joined_request")
		},
	}.Run(t)
}

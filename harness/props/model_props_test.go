package props

import (
	"strings"
	"testing"

	"pgregory.net/rapid"
)

func lab(e *Exec, ls ...string) bool {
	for _, l := range ls {
		if e.Labels[l] == 0 {
			return false
		}
	}
	return true
}

func anyLab(e *Exec, ls ...string) bool {
	for _, l := range ls {
		if e.Labels[l] > 0 {
			return true
		}
	}
	return false
}

func prof(name string, over map[Op]int) Profile {
	return Profile{Name: name, Setup: 12, MinSteps: 25, MaxSteps: 80, MaxConns: 6, W: weights(over), JoinBias: 85, BigBody: 10, Latency: true, Receipts: true}
}

const genRule = "scripts drawn by rapid: 2-6 connection slots, initial joins, <=12 state-building steps, 25-80 weighted steps over all request kinds with abstract arguments (live/dead/foreign/zero/never-issued ids) resolved against the reference model, any module subset, run on the handler-level driver; "

var refusals = []string{"entity_del_unknown", "entity_del_foreign", "comp_add_refused", "comp_del_absent", "sub_unregistered", "action_refused", "asset_refused", "join_refused_not_found", "join_already_joined", "custom_too_large"}

// checkFor returns the model-based check of a property (shared by the handler-level and wire parts).
func checkFor(prop string) ModelCheck {
	switch prop {
	case "C01":
		return ModelCheck{Prop: "C01", Part: "H", Profile: prof("c01", map[Op]int{OpJoin: 7, OpPose: 10, OpTick: 10}),
			Rule: genRule + "non-trivial = distinct script in which some observer applied >=3 broadcasts of >=2 kinds to its replica and a later joiner was handed a non-empty session (snapshot compared with the model)",
			NT: func(e *Exec, sc Script) bool {
				return lab(e, "observer_3_broadcasts_2_kinds", "join_existing_with_entities")
			},
		}
	case "C02":
		return ModelCheck{Prop: "C02", Part: "H", Profile: prof("c02", map[Op]int{OpJoin: 4, OpClose: 3, OpEntityAdd: 16, OpCustom: 8, OpPose: 10, OpTick: 10}),
			Rule: genRule + "non-trivial = distinct script with an accepted change relayed to >=2 other members and >=1 refused request",
			NT:   func(e *Exec, sc Script) bool { return lab(e, "relay_to_2plus") && anyLab(e, refusals...) },
		}
	case "C04":
		return ModelCheck{
			Prop: "C04", Part: "H", Profile: prof("c04", nil),
			Rule: genRule + "non-trivial = distinct script that reaches >=4 distinct (request kind, outcome) classes incl. >=1 refusal and >=1 request from a connection that is in no session",
			NT: func(e *Exec, sc Script) bool {
				n := 0
				for _, l := range []string{"entity_add", "entity_del", "entity_del_unknown", "entity_del_foreign", "comp_add", "comp_add_refused", "comp_del", "comp_del_absent", "sub", "sub_unregistered", "unsub", "type_add", "type_add_again", "action_set", "action_refused", "asset_add", "asset_refused", "join_refused_not_found", "join_already_joined", "custom_too_large", "latency_bad_count", "receipt_accepted", "receipt_empty_field", "comp_list", "dagaz_query"} {
					if e.Labels[l] > 0 {
						n++
					}
				}
				return n >= 4 && anyLab(e, refusals...) && lab(e, "not_joined_request")
			},
		}
	case "C05":
		p := prof("c05", map[Op]int{OpEntityAdd: 18, OpEntityDel: 12, OpPose: 14, OpAsset: 12, OpClose: 4, OpJoin: 6, OpTick: 10})
		return ModelCheck{Prop: "C05", Part: "H", Profile: p,
			Rule: genRule + "weights favour entity delete / pose / asset requests; non-trivial = distinct script with >=1 foreign attempt (delete, pose or asset) on a live entity and >=1 attempt on an entity whose owner has left",
			NT: func(e *Exec, sc Script) bool {
				return anyLab(e, "entity_del_foreign", "pose_foreign", "asset_foreign") && lab(e, "foreign_attempt_owner_gone")
			},
		}
	case "C06":
		p := prof("c06", map[Op]int{OpEntityAdd: 22, OpClose: 7, OpJoin: 8, OpCompAdd: 14, OpAction: 12, OpAsset: 12, OpSub: 6, OpTypeAdd: 10, OpNoTS: 1, OpEntityDel: 3})
		return ModelCheck{Prop: "C06", Part: "H", Profile: p, Mutate: lateJoiner,
			Rule: genRule + "departures by close, handler error, frame without timestamp and session switch; non-trivial = distinct script in which a leaver owns >=1 persistent and >=1 non-persistent entity with attachments while another member remains",
			NT:   func(e *Exec, sc Script) bool { return lab(e, "departure_rich") },
		}
	case "C07":
		p := prof("c07", map[Op]int{OpJoin: 30, OpClose: 12, OpEntityAdd: 6})
		p.Setup = 3
		return ModelCheck{Prop: "C07", Part: "H", Profile: p, Registry: true,
			Rule: genRule + "weights favour join/switch/close cycles; after every step the registry (id resolution for live and ended sessions), the session gauge and the number of frame-worker goroutines are compared with the model; non-trivial = distinct script with >=2 session ids reused after their session ended",
			NT:   func(e *Exec, sc Script) bool { return e.Labels["session_id_reused"] >= 2 },
		}
	case "C10":
		p := prof("c10", map[Op]int{OpJoin: 20, OpClose: 8, OpEntityAdd: 16, OpEntityDel: 10, OpTypeAdd: 10, OpAsset: 10})
		return ModelCheck{Prop: "C10", Part: "H", Profile: p,
			Rule: genRule + "weights favour allocations and releases (session create/end, joins, entity add/delete, type registration, asset add); non-trivial = distinct script with a reused session id, >=1 entity deletion followed by further entity adds, and >=2 type registrations",
			NT: func(e *Exec, sc Script) bool {
				return lab(e, "session_id_reused", "entity_del") && e.Labels["entity_add"]+e.Labels["entity_add_persistent"] >= 3 && e.Labels["type_add"] >= 2
			},
		}
	case "C12":
		p := prof("c12", map[Op]int{OpTypeAdd: 10, OpCompAdd: 18, OpCompDel: 10, OpCompUpdate: 14, OpCompList: 8, OpSub: 8, OpEntityDel: 8, OpGetName: 4, OpGetID: 4, OpTick: 12, OpJoin: 4, OpClose: 2})
		return ModelCheck{Prop: "C12", Part: "H", Profile: p,
			Rule: genRule + "weights favour component requests; non-trivial = distinct script with an update of a never-added component while the type has a subscriber, a cascade (entity with components removed) and a list after a delete",
			NT: func(e *Exec, sc Script) bool {
				return lab(e, "comp_update_absent_with_subscriber", "comp_list_after_delete") && anyLab(e, "entity_del_with_attachments", "departure_removes_attachments")
			},
		}
	case "C13":
		p := prof("c13", map[Op]int{OpTypeAdd: 10, OpCompAdd: 16, OpCompDel: 8, OpCompUpdate: 16, OpSub: 16, OpUnsub: 8, OpTick: 14, OpJoin: 4, OpClose: 3})
		return ModelCheck{Prop: "C13", Part: "H", Profile: p,
			Rule: genRule + "weights favour subscribe/unsubscribe and component changes; non-trivial = distinct script with >=2 subscribers of one type and a component change of a type after a subscriber of it unsubscribed or left",
			NT:   func(e *Exec, sc Script) bool { return lab(e, "two_subscribers", "comp_change_after_unsubscribe") },
		}
	case "C14":
		p := prof("c14", map[Op]int{OpCustom: 40, OpJoin: 6, OpClose: 3})
		p.BigBody = 45
		p.Setup = 2
		return ModelCheck{Prop: "C14", Part: "H", Profile: p,
			Rule: genRule + "weights favour custom messages, 45% with a body of 10238..10242/20480/65536 bytes; non-trivial = distinct script with a body within 2 bytes of the limit (either side) or a recipient list holding a duplicate, a stranger and the sender together",
			NT: func(e *Exec, sc Script) bool {
				return anyLab(e, "custom_at_limit", "custom_too_large", "custom_dup_stranger_self")
			},
		}
	case "C16":
		p := prof("c16", map[Op]int{OpAction: 30, OpAsset: 18, OpEntityAdd: 14, OpEntityDel: 8, OpJoin: 7, OpClose: 4})
		p.Modules = []string{"vikja", "odal"}
		p.FewTargets = true
		p.MinSteps = 40
		return ModelCheck{Prop: "C16", Part: "H", Profile: p, Mutate: lateJoiner,
			Rule: genRule + "vikja+odal loaded, weights favour entity actions (timestamps 0, 1, 5, 7, 10, year 9999, -1; equal and decreasing) and asset adds; non-trivial = distinct script with an older action refused, an asset replaced and a later joiner handed the module state",
			NT: func(e *Exec, sc Script) bool {
				return lab(e, "action_older_refused", "asset_replaced", "join_existing_with_attachments")
			},
		}
	case "C11":
		p := prof("c11", map[Op]int{OpPose: 40, OpTick: 22, OpEntityAdd: 14, OpEntityDel: 8, OpJoin: 6, OpClose: 3})
		p.NilSub = true
		return ModelCheck{Prop: "C11", Part: "H", Profile: p,
			Rule: genRule + "weights favour pose updates (sequence number in px; arbitrary float bit patterns; foreign, unknown, deleted entities; absent pose) and frame ticks; per frame exactly the latest update of each owned live entity must be applied and relayed once; non-trivial = distinct script in which >=2 updates of one entity fell into one frame and an update was still pending when its entity was deleted or named an unknown/foreign entity",
			NT: func(e *Exec, sc Script) bool {
				return lab(e, "pose_coalesced", "pose_applied") && anyLab(e, "pose_unknown_entity", "pose_foreign", "pose_without_pose")
			},
		}
	case "C18":
		p := prof("c18", map[Op]int{OpLatency: 14, OpPingResp: 70, OpJoin: 3, OpClose: 1, OpTick: 3, OpEntityAdd: 3})
		p.Setup = 2
		p.MinSteps, p.MaxSteps = 25, 90
		p.MaxConns = 3
		return ModelCheck{Prop: "C18", Part: "H", Profile: p,
			Rule: genRule + "weights favour signed-latency requests (rounds 0,2,3,4,5,8,50,51,60,2^32-1; empty and non-empty wallet) and ping responses (outstanding id 70%, an id answered before 15%, unknown id 15%) sent after a scripted delay of 1us..1s on the fake clock; the final response is checked: signature recovers to the server wallet over exactly the returned bytes, client id, session UUID, wallet, round count, ping ids == issued ids, 0<=min<=mean<=max, p95/last in [min,max], last == delay of the final round; non-trivial = distinct script with a completed measurement with >=3 distinct delays and >=1 misbehaving answer (duplicate, unknown, replay after completion, restart)",
			NT: func(e *Exec, sc Script) bool {
				return lab(e, "latency_complete", "latency_3_distinct_delays") && anyLab(e, "ping_answered_again", "ping_unknown_id", "ping_replay_after_completion", "latency_restart")
			},
		}
	case "C19":
		p := prof("c19", map[Op]int{OpReceipt: 45, OpJoin: 5, OpClose: 2, OpEntityAdd: 5})
		p.Setup = 2
		return ModelCheck{Prop: "C19", Part: "H", Profile: p,
			Rule: genRule + "weights favour receipt submissions (each field empty or not) from joined and not-joined connections against a queue of capacity 1, 2 or 128 that nobody drains; every submission must get exactly one answer - RECEIPT_RESPONSE, BAD_REQUEST for an empty field, SERVER_TOO_BUSY when the queue is full - at once, the queue must hold exactly the accepted receipts, and the connection must stay usable; non-trivial = distinct script with an accepted receipt and a submission against a full queue or with an empty field",
			NT: func(e *Exec, sc Script) bool {
				return lab(e, "receipt_accepted") && anyLab(e, "receipt_queue_full", "receipt_empty_field")
			},
		}
	}
	panic("no model check for " + prop)
}

func TestC01Model(t *testing.T) { checkFor("C01").Run(t) }
func TestC01Wire(t *testing.T)  { wire(checkFor("C01")).Run(t) }
func TestC02Model(t *testing.T) { checkFor("C02").Run(t) }
func TestC02Wire(t *testing.T)  { wire(checkFor("C02")).Run(t) }
func TestC04Model(t *testing.T) { checkFor("C04").Run(t) }
func TestC04Wire(t *testing.T)  { wire(checkFor("C04")).Run(t) }
func TestC05Model(t *testing.T) { checkFor("C05").Run(t) }
func TestC05Wire(t *testing.T)  { wire(checkFor("C05")).Run(t) }
func TestC06Model(t *testing.T) { checkFor("C06").Run(t) }
func TestC06Wire(t *testing.T)  { wire(checkFor("C06")).Run(t) }
func TestC07Model(t *testing.T) { checkFor("C07").Run(t) }
func TestC07Wire(t *testing.T)  { wire(checkFor("C07")).Run(t) }
func TestC10Model(t *testing.T) { checkFor("C10").Run(t) }
func TestC10Wire(t *testing.T)  { wire(checkFor("C10")).Run(t) }
func TestC12Model(t *testing.T) { checkFor("C12").Run(t) }
func TestC12Wire(t *testing.T)  { wire(checkFor("C12")).Run(t) }
func TestC13Model(t *testing.T) { checkFor("C13").Run(t) }
func TestC13Wire(t *testing.T)  { wire(checkFor("C13")).Run(t) }
func TestC14Model(t *testing.T) { checkFor("C14").Run(t) }
func TestC14Wire(t *testing.T)  { wire(checkFor("C14")).Run(t) }
func TestC16Model(t *testing.T) { checkFor("C16").Run(t) }
func TestC16Wire(t *testing.T)  { wire(checkFor("C16")).Run(t) }
func TestC11Model(t *testing.T) { checkFor("C11").Run(t) }
func TestC11Wire(t *testing.T)  { wire(checkFor("C11")).Run(t) }
func TestC19Model(t *testing.T) { checkFor("C19").Run(t) }
func TestC19Wire(t *testing.T)  { wire(checkFor("C19")).Run(t) }
func TestC18Model(t *testing.T) { checkFor("C18").Run(t) }
func TestC18Wire(t *testing.T)  { wire(checkFor("C18")).Run(t) }

// wire turns a handler-level check into the same check on the wire driver
// (real websocket.Handle, production decorators, real codec over net.Pipe).
func wire(mc ModelCheck) ModelCheck {
	mc.Part = "W"
	mc.Wire = true
	mc.Registry = false
	mc.Rule = strings.Replace(mc.Rule, "run on the handler-level driver", "run on the wire driver (real websocket.Handle + HandlerWithLogs + HandlerWithMetrics over net.Pipe in a synctest bubble)", 1)
	return mc
}

// C08: hostile clients on the wire driver.
func hostileCheck() ModelCheck {
	p := prof("c08", map[Op]int{OpGarbage: 5, OpText: 3, OpBadTyped: 6, OpBurstBad: 8, OpBurstPing: 3, OpSilence: 10, OpStall: 2, OpAbort: 4, OpNoTS: 3,
		OpQuad: 8, OpGround: 6, OpRegion: 6, OpDebug: 2, OpPose: 8, OpAction: 6, OpUnknown: 4, OpJoin: 6, OpClose: 3, OpPing: 4})
	p.NilSub = true
	p.Hostile = true
	p.IdleMs = []int{300, 1000, 2000}
	p.MaxConns = 5
	p.MinSteps, p.MaxSteps = 20, 60
	return ModelCheck{Prop: "C08", Part: "W", Wire: true, Profile: p,
		Rule: "scripts as for the model-based checks but run on the wire driver with a client idle timeout of 0.3-2 s (fake clock) and hostile steps mixed in: undecodable frames, text frames, frames without timestamp, frames whose typed body does not decode, bursts of 1-64 failing requests and of up to 300 pings written without waiting, absent sub-messages, non-finite/huge/subnormal ground-plane coordinates, unknown message types, silence for 1-140 frames, clients that stop reading, transport aborts; after every step: no panic, exactly the connections the protocol says are ended (idle deadline computed by the model to the nanosecond), departures as in C06, every other member and session undisturbed (replicas, server state); at the end every handler has returned, no connection or session goroutine remains, ws_connected_clients and session_count are back; non-trivial = distinct script with >=1 structurally valid message with an absent or non-finite field, or a burst of >=9 failing requests, or an abort/idle timeout of a connection that owns entities",
		NT: func(e *Exec, sc Script) bool {
			return anyLab(e, "burst_bad_9plus", "idle_timeout", "pose_without_pose", "abort", "garbage_frame", "bad_typed_frame") && lab(e, "departure_removes_entities")
		},
	}
}

func TestC08Hostile(t *testing.T) { hostileCheck().Run(t) }

// C08, burst volume: the outcome of a burst of failing requests depends on Go's
// randomised select in the connection loop, so one fixed shape is repeated
// with many draws (a failure is expected with probability ~2^-8 per burst if
// the loop can block on its own disconnect queue).
func TestC08Burst(t *testing.T) {
	mc := hostileCheck()
	mc.Part = "Wburst"
	mc.Rule = "wire driver; fixed shape repeated with drawn parameters: a connection (not joined / joined / joined and owning a persistent and a non-persistent entity) writes 9-64 frames whose typed body does not decode without waiting, while a witness shares its session; the connection must be ended exactly once through the normal path and leave no handler, goroutine, gauge or session residue; the verdict per case depends on Go's randomised select, hence the volume; non-trivial = every distinct drawn shape"
	mc.NT = func(e *Exec, sc Script) bool { return lab(e, "burst_bad_9plus") }
	mc.Profile.MinSteps = 0
	mc.Run2(t, func(rt *rapid.T) Script {
		sc := Script{Cfg: Config{Modules: allModules, FrameMs: 15, Conns: 2, ReceiptCap: 8, IdleMs: 2000}}
		phase := uni(rt, "phase", 3)
		sc.Steps = append(sc.Steps, Step{Conn: 1, Op: OpJoin, Sess: Ref{Kind: SessNew}})
		if phase >= 1 {
			sc.Steps = append(sc.Steps, Step{Conn: 0, Op: OpJoin, Sess: Ref{Kind: SessLive}})
		}
		if phase == 2 {
			sc.Steps = append(sc.Steps, Step{Conn: 0, Op: OpEntityAdd, Persist: true}, Step{Conn: 0, Op: OpEntityAdd})
		}
		sc.Steps = append(sc.Steps, Step{Conn: 0, Op: OpBurstBad, Count: uint32(9 + uni(rt, "k", 56)), Flag: int32(pick(rt, "kind", []int{0, 1, 3}))})
		sc.Steps = append(sc.Steps, Step{Conn: 1, Op: OpPing}, Step{Op: OpTick}, Step{Conn: 1, Op: OpEntityAdd})
		return sc
	})
}

// lateJoiner appends a newcomer to every script: a connection slot of its own
// joins the oldest live session at the very end and is handed its state.
func lateJoiner(sc *Script) {
	sc.Steps = append(sc.Steps, Step{Conn: sc.Cfg.Conns, Op: OpJoin, Sess: Ref{Kind: SessLive, N: 0}})
	sc.Cfg.Conns++
}

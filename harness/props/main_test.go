package props

import (
	"os"
	"testing"
)

func TestMain(m *testing.M) {
	code := m.Run()
	if bBinPath != "" {
		os.Remove(bBinPath)
	}
	os.Exit(code)
}

package props

import (
	"fmt"
	"os"
	"testing"

	"github.com/aukilabs/hagall/models"
)

// C10 (a): every sequence over {New, release(i-th held id)} up to a bounded
// length on SequentialIDGenerator, respecting the only precondition callers
// honour (release an id you hold, once). New must never return an id that is
// currently held. Enumerated completely (exhaustive: true).
func TestC10IDsExhaustive(t *testing.T) {
	maxLen := 13
	if os.Getenv("VERIF_TIER") == "thorough" {
		maxLen = 16
	}
	col := NewCollector("C10", "ids", fmt.Sprintf("complete enumeration of all sequences of length <= %d over {New, release(i-th currently held id)} on models.SequentialIDGenerator (release only ids that are held, once - the precondition every caller honours); after every New: the id is not currently held and is not 0; non-trivial = sequence with a release followed by >= 2 allocations", maxLen))
	col.Exhaustive = true
	t.Cleanup(col.Write)
	// a sequence is a list of choices: 0 = New, k>0 = release the k-th held id
	var seq []int
	var rec func()
	run := func(seq []int) (string, int, bool) {
		var g models.SequentialIDGenerator
		var held []uint32
		releases, allocAfterRelease := 0, 0
		for _, c := range seq {
			if c == 0 {
				id := g.New()
				if id == 0 {
					return "New returned 0", len(held), false
				}
				for _, h := range held {
					if h == id {
						return fmt.Sprintf("New returned id %d which is still held (held: %v)", id, held), len(held), false
					}
				}
				held = append(held, id)
				if releases > 0 {
					allocAfterRelease++
				}
			} else {
				g.Reuse(held[c-1])
				held = append(held[:c-1], held[c:]...)
				releases++
			}
		}
		return "", len(held), allocAfterRelease >= 2
	}
	var fail string
	rec = func() {
		if fail != "" {
			return
		}
		v, held, nt := run(seq)
		if len(seq) > 0 {
			col.Evaluations++
			if nt {
				col.NTCount++ // every enumerated sequence is distinct by construction
				if len(col.Samples) < 3 && len(seq) == maxLen {
					col.Samples = append(col.Samples, fmt.Sprint(seq))
				}
			}
		}
		if v != "" {
			fail = fmt.Sprintf("%s after sequence %v (0 = New, k = release k-th held)", v, seq)
			saveCase("C10", seq)
			return
		}
		if len(seq) == maxLen {
			return
		}
		for c := 0; c <= held; c++ {
			seq = append(seq, c)
			rec()
			seq = seq[:len(seq)-1]
		}
	}
	rec()
	if len(col.Samples) == 0 {
		col.Samples = append(col.Samples, "[0 0 1 0 0]")
	}
	if fail != "" {
		col.Violations++
		t.Fatalf("C10 violated: %s", fail)
	}
}

package props

import (
	"fmt"
	"os"
	"sync"
	"sync/atomic"
	"testing"
	"time"

	"pgregory.net/rapid"

	"github.com/aukilabs/hagall/models"
)

// C10 (a): every sequence over {New, release(i-th held id)} up to a bounded
// length on SequentialIDGenerator, respecting the only precondition callers
// honour (release an id you hold, once). New must never return an id that is
// currently held. Enumerated completely (exhaustive: true).
func TestC10IDsExhaustive(t *testing.T) {
	maxLen := 13
	if os.Getenv("VERIF_TIER") == "thorough" {
		maxLen = 16
	}
	col := NewCollector("C10", "ids", fmt.Sprintf("complete enumeration of all sequences of length <= %d over {New, release(i-th currently held id)} on models.SequentialIDGenerator (release only ids that are held, once - the precondition every caller honours); after every New: the id is not currently held and is not 0; non-trivial = sequence with a release followed by >= 2 allocations", maxLen))
	col.Exhaustive = true
	t.Cleanup(col.Write)
	// a sequence is a list of choices: 0 = New, k>0 = release the k-th held id
	var seq []int
	var rec func()
	run := func(seq []int) (string, int, bool) {
		var g models.SequentialIDGenerator
		var held []uint32
		releases, allocAfterRelease := 0, 0
		for _, c := range seq {
			if c == 0 {
				id := g.New()
				if id == 0 {
					return "New returned 0", len(held), false
				}
				for _, h := range held {
					if h == id {
						return fmt.Sprintf("New returned id %d which is still held (held: %v)", id, held), len(held), false
					}
				}
				held = append(held, id)
				if releases > 0 {
					allocAfterRelease++
				}
			} else {
				g.Reuse(held[c-1])
				held = append(held[:c-1], held[c:]...)
				releases++
			}
		}
		return "", len(held), allocAfterRelease >= 2
	}
	var fail string
	rec = func() {
		if fail != "" {
			return
		}
		v, held, nt := run(seq)
		if len(seq) > 0 {
			col.Evaluations++
			if nt {
				col.NTCount++ // every enumerated sequence is distinct by construction
				if len(col.Samples) < 3 && len(seq) == maxLen {
					col.Samples = append(col.Samples, fmt.Sprint(seq))
				}
			}
		}
		if v != "" {
			fail = fmt.Sprintf("%s after sequence %v (0 = New, k = release k-th held)", v, seq)
			saveCase("C10", seq)
			return
		}
		if len(seq) == maxLen {
			return
		}
		for c := 0; c <= held; c++ {
			seq = append(seq, c)
			rec()
			seq = seq[:len(seq)-1]
		}
	}
	rec()
	if len(col.Samples) == 0 {
		col.Samples = append(col.Samples, "[0 0 1 0 0]")
	}
	if fail != "" {
		col.Violations++
		t.Fatalf("C10 violated: %s", fail)
	}
}

// C10 (b): the id sources under real concurrency ("when ids are requested
// concurrently from any number of connections"). 2-16 goroutines hammer one
// SequentialIDGenerator with generated mixes of New and release-of-a-held-id,
// and one Session with NewParticipantID / NewEntityID (never released). An
// ownership table of atomics is the oracle: an id handed out while somebody
// still holds it is a collision. The table entry is cleared BEFORE the id is
// given back, so the oracle cannot fail on a correct generator.
type idRaceCase struct {
	Workers int   `json:"workers"`
	Ops     int   `json:"ops_per_worker"`
	Release []int `json:"release_every"` // per worker: release a held id every k-th step (0 = never)
}

func runIDRace(c idRaceCase) (viol string, collisions int) {
	var g models.SequentialIDGenerator
	sess := models.NewSession(1, time.Hour)
	const N = 1 << 21
	owners := make([]atomic.Int32, N)
	pidSeen := make([]atomic.Int32, N)
	eidSeen := make([]atomic.Int32, N)
	var vmu sync.Mutex
	note := func(s string) {
		vmu.Lock()
		if viol == "" {
			viol = s
		}
		collisions++
		vmu.Unlock()
	}
	var wg sync.WaitGroup
	start := make(chan struct{})
	for wk := 0; wk < c.Workers; wk++ {
		wg.Add(1)
		go func(wk int) {
			defer wg.Done()
			<-start
			var held []uint32
			rel := c.Release[wk%len(c.Release)]
			for i := 0; i < c.Ops; i++ {
				if rel > 0 && i%rel == rel-1 && len(held) > 0 {
					id := held[len(held)-1]
					held = held[:len(held)-1]
					owners[id].Store(0)
					g.Reuse(id)
					continue
				}
				id := g.New()
				if id == 0 || int(id) >= N {
					note(fmt.Sprintf("generator returned id %d", id))
					return
				}
				if !owners[id].CompareAndSwap(0, int32(wk+1)) {
					note(fmt.Sprintf("id %d was handed to worker %d while worker %d still holds it", id, wk+1, owners[id].Load()))
				}
				held = append(held, id)
				if p := sess.NewParticipantID(); int(p) < N && !pidSeen[p].CompareAndSwap(0, 1) {
					note(fmt.Sprintf("participant id %d was issued twice in one session", p))
				}
				if e := sess.NewEntityID(); int(e) < N && !eidSeen[e].CompareAndSwap(0, 1) {
					note(fmt.Sprintf("entity id %d was issued twice in one session", e))
				}
			}
		}(wk)
	}
	close(start)
	wg.Wait()
	return
}

func TestC10IDsConcurrent(t *testing.T) {
	col := NewCollector("C10", "idsR", "real threads: 2-16 goroutines, each 2000-20000 steps on one shared models.SequentialIDGenerator (New, or release of an id the goroutine holds, every k-th step with k generated per goroutine) and on one models.Session (NewParticipantID, NewEntityID); oracle: an atomic ownership table - no id is handed out while another goroutine holds it, no participant or entity id is issued twice; non-trivial = distinct case with >= 4 goroutines of which at least one releases ids")
	t.Cleanup(col.Write)
	if rp := os.Getenv("VERIF_REPLAY"); rp != "" {
		var c idRaceCase
		if err := readJSON(rp, &c); err != nil || c.Workers == 0 || len(c.Release) == 0 {
			t.Skipf("replay file not usable: %v", err)
		}
		for i := 0; i < 20; i++ {
			if v, _ := runIDRace(c); v != "" {
				t.Fatalf("replay violates C10: %s", v)
			}
		}
		return
	}
	rapid.Check(t, func(rt *rapid.T) {
		c := idRaceCase{Workers: 2 + uni(rt, "workers", 15), Ops: pick(rt, "ops", []int{2000, 5000, 20000})}
		releasing := false
		for i := 0; i < c.Workers; i++ {
			r := pick(rt, "release_every", []int{0, 0, 2, 3, 5, 17})
			releasing = releasing || r > 0
			c.Release = append(c.Release, r)
		}
		v, n := runIDRace(c)
		col.Case(fmt.Sprintf("%+v", c), v == "" && c.Workers >= 4 && releasing, map[string]int{"workers_ge_8": b2i(c.Workers >= 8), "with_releases": b2i(releasing)}, func() any { return c })
		if v != "" {
			col.Violations++
			saveCase("C10", c)
			rt.Fatalf("C10 violated: %s (%d collisions in this case; case %+v)", v, n, c)
		}
	})
}

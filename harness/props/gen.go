package props

import (
	"math"

	"pgregory.net/rapid"
)

// Profile tunes the script generator for one property: which operations are
// frequent, how many connections/steps, which modules.
type Profile struct {
	Name       string
	Setup      int // up to this many state-building steps after the initial joins
	MinSteps   int
	MaxSteps   int
	MaxConns   int
	Modules    []string // nil = any subset
	W          map[Op]int
	JoinBias   int  // percentage of connections that start with a join
	BigBody    int  // percentage of custom messages with a body near/over the limit
	NilSub     bool // generate requests with absent optional sub-messages
	Latency    bool // allow accepted signed-latency runs
	Receipts   bool
	FewTargets bool // concentrate entity references on the first two live entities
	Hostile    bool // non-finite / huge coordinates, idle timeouts
	IdleMs     []int
}

var baseWeights = map[Op]int{
	OpJoin: 5, OpClose: 2, OpEntityAdd: 14, OpEntityDel: 6, OpPose: 8, OpCustom: 5,
	OpTypeAdd: 8, OpGetName: 2, OpGetID: 2, OpCompAdd: 10, OpCompDel: 4, OpCompUpdate: 6, OpCompList: 3,
	OpSub: 7, OpUnsub: 3, OpPing: 1, OpPingResp: 1, OpAction: 8, OpAsset: 6,
	OpQuad: 1, OpGround: 1, OpRegion: 1, OpDebug: 1, OpReceipt: 1, OpLatency: 1, OpUnknown: 1, OpNoTS: 0, OpTick: 8,
}

func weights(over map[Op]int) map[Op]int {
	w := map[Op]int{}
	for k, v := range baseWeights {
		w[k] = v
	}
	for k, v := range over {
		w[k] = v
	}
	return w
}

var opOrder = []Op{OpJoin, OpClose, OpEntityAdd, OpEntityDel, OpPose, OpCustom, OpTypeAdd, OpGetName, OpGetID, OpCompAdd, OpCompDel,
	OpCompUpdate, OpCompList, OpSub, OpUnsub, OpPing, OpPingResp, OpAction, OpAsset, OpQuad, OpGround, OpRegion, OpDebug, OpReceipt,
	OpLatency, OpUnknown, OpNoTS, OpTick, OpGarbage, OpText, OpBadTyped, OpBurstBad, OpBurstPing, OpSilence, OpStall, OpAbort}

func (p Profile) opTable() []Op {
	var t []Op
	for _, op := range opOrder {
		for i := 0; i < p.W[op]; i++ {
			t = append(t, op)
		}
	}
	return t
}

var interestingF32 = []uint32{
	0, 0x80000000, math.Float32bits(1), math.Float32bits(-1), 1 /*subnormal*/, math.Float32bits(3.4e38), math.Float32bits(-3.4e38),
	0x7fc00000 /*NaN*/, 0x7f800000 /*+Inf*/, 0xff800000 /*-Inf*/, math.Float32bits(0.5), math.Float32bits(123.456),
}

func genF32(t *rapid.T, label string) uint32 {
	if uni(t, label+"_k", 4) == 0 {
		return rapid.Uint32().Draw(t, label)
	}
	return rapid.SampledFrom(interestingF32).Draw(t, label)
}

func genPose(t *rapid.T) *[7]uint32 {
	var p [7]uint32
	// px doubles as a sequence number in most cases
	p[0] = math.Float32bits(float32(uni(t, "seq", 1001)))
	if uni(t, "pose_kind", 3) == 0 {
		for i := 0; i < 7; i++ {
			p[i] = genF32(t, "pf")
		}
	}
	return &p
}

// uni draws an integer uniformly from [0,n). rapid's own integer and
// SampledFrom generators are deliberately biased towards small values, which
// skews weighted choices; 16 unbiased bits (rapid.Bool) are used instead. The
// value still shrinks towards 0.
var bits16 = rapid.SliceOfN(rapid.Bool(), 16, 16)

func uni(t *rapid.T, label string, n int) int {
	if n <= 1 {
		return 0
	}
	v := 0
	for _, b := range bits16.Draw(t, label) {
		v <<= 1
		if b {
			v |= 1
		}
	}
	return v % n
}

func pick[T any](t *rapid.T, label string, xs []T) T { return xs[uni(t, label, len(xs))] }

func weighted(t *rapid.T, label string, kinds []string, w []int) string {
	total := 0
	for _, x := range w {
		total += x
	}
	r := uni(t, label, total)
	for i, x := range w {
		if r < x {
			return kinds[i]
		}
		r -= x
	}
	return kinds[len(kinds)-1]
}

func (p Profile) entRef(t *rapid.T) Ref {
	r := genEntRef(t)
	if p.FewTargets && uni(t, "few", 4) != 0 {
		r = Ref{Kind: pick(t, "few_kind", []string{EntAlive, EntAlive, EntMine}), N: uni(t, "few_n", 2)}
	}
	return r
}

func genEntRef(t *rapid.T) Ref {
	k := weighted(t, "ent_kind", []string{EntAlive, EntMine, EntForeign, EntEver, EntZero, EntNever}, []int{40, 25, 15, 8, 4, 8})
	return Ref{Kind: k, N: uni(t, "ent_n", 8)}
}

func genTypRef(t *rapid.T) Ref {
	k := weighted(t, "typ_kind", []string{TypEver, TypZero, TypNever}, []int{86, 5, 9})
	return Ref{Kind: k, N: uni(t, "typ_n", 4)}
}

func genSessRef(t *rapid.T) Ref {
	k := weighted(t, "sess_kind", []string{SessNew, SessLive, SessCurrent, SessEnded, SessGarbage}, []int{25, 50, 6, 10, 9})
	return Ref{Kind: k, N: uni(t, "sess_n", 10)}
}

func genData(t *rapid.T) []byte {
	return rapid.SliceOfN(rapid.Byte(), 0, 6).Draw(t, "data")
}

var unknownTypes = []uint32{1, 2, 4, 5, 6, 7, 9, 10, 12, 13, 15, 17, 19, 41, 43, 44, 99, 100, 102, 103, 200, 202, 203, 302, 304, 306, 1000, 1 << 30}

func genDagazF(t *rapid.T, n int, extents bool) []uint32 {
	f := make([]uint32, 0, n)
	if extents && uni(t, "inside_initial_cell", 4) == 0 {
		// a small plane that lies wholly inside the cell a fresh grid starts with ([0,2[ on every
		// axis): storing it never grows (re-allocates) the grid
		for i := 0; i < n; i++ {
			v := float32(30+uni(t, "cell_coord", 141)) / 100
			if i%6 >= 3 {
				v = float32(5+uni(t, "cell_ext", 21)) / 100
			}
			f = append(f, math.Float32bits(v))
		}
		return f
	}
	if !extents && n == 6 && uni(t, "around_initial_cell", 4) == 0 {
		// a box (or oblique ray) that spans the initial cell
		for i := 0; i < 6; i++ {
			v := -float32(uni(t, "box_lo", 60)) / 100
			if i >= 3 {
				v = 2 + float32(uni(t, "box_hi", 100))/100
			}
			f = append(f, math.Float32bits(v))
		}
		return f
	}
	for i := 0; i < n; i++ {
		var v float32
		if extents && i%6 >= 3 {
			v = float32((1 + uni(t, "ext", 400))) / 100
		} else {
			v = float32((-800 + uni(t, "coord", 1601))) / 100
		}
		f = append(f, math.Float32bits(v))
	}
	return f
}

func (p Profile) genStep(t *rapid.T, conns int, table []Op) Step {
	st := Step{Conn: uni(t, "conn", conns), Op: pick(t, "op", table)}
	switch st.Op {
	case OpJoin:
		st.Sess = genSessRef(t)
	case OpEntityAdd:
		st.Persist = uni(t, "persist", 10) < 3
		st.Flag = int32(uni(t, "flag", 2))
		if uni(t, "has_pose", 5) != 0 {
			st.Pose = genPose(t)
		}
	case OpEntityDel:
		st.Ent = genEntRef(t)
	case OpPose:
		st.Ent = genEntRef(t)
		st.Pose = genPose(t)
		if p.NilSub && uni(t, "nosub", 12) == 0 {
			st.NoSub = true
		}
	case OpCustom:
		if uni(t, "big", 100) < p.BigBody {
			st.BigLen = pick(t, "biglen", []int{10238, 10239, 10240, 10241, 10242, 10300, 20480, 65536, 1, 5000})
			st.Data = []byte{rapid.Byte().Draw(t, "bigseed")}
		} else {
			st.Data = genData(t)
		}
		n := pick(t, "nrcpt", []int{0, 0, 0, 1, 1, 2, 3, 5})
		for i := 0; i < n; i++ {
			k := weighted(t, "rcpt_kind", []string{PMember, PSelf, PStranger, PGone}, []int{60, 12, 16, 12})
			st.Rcpts = append(st.Rcpts, Ref{Kind: k, N: uni(t, "rcpt_n", 6)})
		}
	case OpTypeAdd, OpGetID:
		st.Name = pick(t, "tname", []string{"", "a", "a", "a", "b", "b", "b", "c", "pose.v1", " a", "a ", "\tb\n", "A", "\x00", "é"})
	case OpGetName, OpCompList, OpSub, OpUnsub:
		st.Typ = genTypRef(t)
	case OpCompAdd, OpCompUpdate:
		st.Typ = genTypRef(t)
		st.Ent = p.entRef(t)
		st.Data = genData(t)
		if uni(t, "comp_big", 16) == 0 {
			st.BigLen = pick(t, "comp_biglen", []int{10240, 10241, 20000, 70000})
		}
	case OpCompDel:
		st.Typ = genTypRef(t)
		st.Ent = genEntRef(t)
	case OpPingResp:
		st.Ent = Ref{Kind: weighted(t, "ping_kind", []string{PingOutstanding, PingAnswered, PingUnknown}, []int{70, 15, 15}), N: uni(t, "ping_n", 10)}
		st.TNano = int32(pick(t, "delay_us", []int{1, 2, 7, 10, 250, 1000, 15000, 1000000}))
	case OpLatency:
		if p.Latency {
			st.Count = pick(t, "rounds", []uint32{0, 2, 3, 3, 3, 4, 5, 8, 50, 51, 60, 1<<32 - 1})
			st.Name = pick(t, "wallet", []string{"", "0xWALLET", "0xWALLET", "w"})
		} else {
			st.Count = pick(t, "rounds", []uint32{0, 1, 2, 51, 60, 1<<32 - 1, 3, 5})
			if st.Count == 3 || st.Count == 5 {
				st.Name = ""
			} else {
				st.Name = pick(t, "wallet", []string{"", "0xWALLET"})
			}
		}
	case OpAction:
		st.Ent = p.entRef(t)
		st.Name = pick(t, "aname", []string{"", "x", "x", "x", "x", "y", "z", " x", "x "})
		st.TSec = pick(t, "tsec", []int64{0, 1, 5, 5, 5, 7, 10, 253402300799, -1})
		st.TNano = pick(t, "tnano", []int32{0, 0, 1, 999999999})
		st.Data = genData(t)
		if uni(t, "a_nots", 20) == 0 {
			st.NoTS = true
		}
		if uni(t, "a_nosub", 20) == 0 {
			st.NoSub = true
		}
	case OpAsset:
		st.Ent = p.entRef(t)
		st.Name = pick(t, "asset", []string{"", "asset-a", "asset-a", "asset-b", " ", "asset-a "})
	case OpQuad:
		st.F = genDagazF(t, 6*(1+uni(t, "nquads", 3)), true)
		st.NoSub = p.NilSub && uni(t, "nosub", 8) == 0
	case OpGround, OpRegion:
		st.F = genDagazF(t, 6, false)
		if st.Op == OpGround && uni(t, "vertical_ray", 5) < 2 {
			// the typical query: straight down (or up) at one spot - inside the grid, on a cell
			// boundary, on the grid's edge or far outside it
			x := pick(t, "vx", []float32{0.5, 1, 0, 2, -0.001, 2.0001, -7.5, 7.5, 50, -50, 1000, -1000})
			z := pick(t, "vz", []float32{0.5, 1, 0, 2, -0.001, 2.0001, -7.5, 7.5, 50, -50, 1000, -1000})
			if uni(t, "at_sample", 2) == 0 {
				x, z = float32((-800+uni(t, "vcx", 1601)))/100, float32((-800+uni(t, "vcz", 1601)))/100
			}
			y0, y1 := float32(5), float32(-5)
			if uni(t, "upwards", 4) == 0 {
				y0, y1 = y1, y0
			}
			st.F = []uint32{math.Float32bits(x), math.Float32bits(y0), math.Float32bits(z), math.Float32bits(x), math.Float32bits(y1), math.Float32bits(z)}
		}
		st.NoSub = p.NilSub && uni(t, "nosub", 8) == 0
	case OpReceipt:
		st.Name = pick(t, "rtext", []string{"", "r", "receipt-text"})
		st.Hash = pick(t, "rhash", [][]byte{nil, {1}, {1, 2, 3}})
		st.Sig = pick(t, "rsig", [][]byte{nil, {9}, {9, 9}})
	case OpUnknown:
		st.Count = pick(t, "utype", unknownTypes)
	case OpGarbage:
		switch uni(t, "garbage_kind", 4) {
		case 0:
			st.Raw = rapid.SliceOfN(rapid.Byte(), 0, 24).Draw(t, "garbage")
		case 1:
			st.Raw = []byte{0x08, 0x03} // a join request without timestamp
		case 2:
			st.Raw = []byte{0x08, 0x08, 0x12, 0x7f, 0x01} // truncated timestamp
		default:
			st.Raw = []byte{0xff, 0xff, 0xff, 0xff, 0xff, 0xff, 0xff, 0xff, 0xff, 0xff, 0x01}
		}
	case OpText:
		st.Name = pick(t, "text", []string{"", "hello", "{\"type\":3}", "\x08\x03"})
	case OpBadTyped:
		st.Count = uint32(uni(t, "bad_kind", 13))
	case OpBurstBad:
		st.Count = uint32(pick(t, "burst_k", []int{1, 2, 7, 8, 9, 10, 16, 33, 64}))
		st.Flag = int32(uni(t, "burst_kind", 4))
		st.TNano = int32(uni(t, "burst_mix", 2))
	case OpBurstPing:
		st.Count = uint32(pick(t, "burst_k", []int{1, 2, 9, 64, 300}))
	case OpSilence:
		st.Count = uint32(pick(t, "silence_frames", []int{1, 3, 10, 30, 70, 140}))
	}
	if p.Hostile && (st.Op == OpGround || st.Op == OpRegion) && len(st.F) >= 6 && uni(t, "overflowing_difference", 6) == 0 {
		// both end points finite, their difference is not representable
		ax := pick(t, "axis", []int{0, 2})
		st.F[ax], st.F[ax+3] = math.Float32bits(3e38), math.Float32bits(-3e38)
		if uni(t, "flip", 2) == 0 {
			st.F[ax], st.F[ax+3] = st.F[ax+3], st.F[ax]
		}
	} else if p.Hostile && (st.Op == OpQuad || st.Op == OpGround || st.Op == OpRegion) && uni(t, "hostile_floats", 2) == 0 {
		all := uni(t, "hf_all", 2) == 0
		for i := range st.F {
			if all || uni(t, "hf_which", 3) == 0 {
				st.F[i] = pick(t, "hf", []uint32{0x7fc00000, 0x7f800000, 0xff800000, math.Float32bits(3.4e38), math.Float32bits(-3.4e38), math.Float32bits(1e9), math.Float32bits(-1e9), math.Float32bits(1e-40), 0x80000000, math.Float32bits(5000)})
			}
		}
	}
	return st
}

var allModules = []string{"vikja", "odal", "dagaz"}

// GenScript draws one script. All randomness comes from rapid.
func (p Profile) GenScript(t *rapid.T) Script {
	var sc Script
	sc.Cfg.Conns = (2 + uni(t, "conns", p.MaxConns-1))
	if p.Modules != nil {
		sc.Cfg.Modules = p.Modules
	} else {
		mask := pick(t, "modules", []int{7, 7, 7, 7, 3, 5, 6, 1, 2, 4, 0})
		sc.Cfg.Modules = []string{}
		for i, m := range allModules {
			if mask&(1<<i) != 0 {
				sc.Cfg.Modules = append(sc.Cfg.Modules, m)
			}
		}
	}
	sc.Cfg.FrameMs = pick(t, "frame_ms", []int{1, 15, 15, 50, 100})
	sc.Cfg.ReceiptCap = pick(t, "receipt_cap", []int{1, 2, 128})
	sc.Cfg.ReqBase = pick(t, "req_base", []uint32{0, 0, 0, 65500, 2147483500, 4294900000})
	if len(p.IdleMs) > 0 {
		sc.Cfg.IdleMs = pick(t, "idle_ms", p.IdleMs)
	}
	table := p.opTable()
	// most connections start by joining: the first creates a session,
	// the others mostly join an existing one
	pre := rapid.SliceOfN(rapid.Custom(func(t *rapid.T) int {
		if uni(t, "prejoin", 100) >= p.JoinBias {
			return -1
		}
		if uni(t, "pre_new", 5) == 0 {
			return -2
		}
		return uni(t, "pre_n", 4)
	}), sc.Cfg.Conns, sc.Cfg.Conns).Draw(t, "prejoins")
	for c, k := range pre {
		switch {
		case k == -1:
		case k == -2 || c == 0:
			sc.Steps = append(sc.Steps, Step{Conn: c, Op: OpJoin, Sess: Ref{Kind: SessNew}})
		default:
			sc.Steps = append(sc.Steps, Step{Conn: c, Op: OpJoin, Sess: Ref{Kind: SessLive, N: k}})
		}
	}
	conns := sc.Cfg.Conns
	setupTable := []Op{OpEntityAdd, OpEntityAdd, OpEntityAdd, OpTypeAdd, OpTypeAdd, OpSub, OpSub, OpCompAdd, OpCompAdd, OpAction, OpAsset}
	setup := rapid.SliceOfN(rapid.Custom(func(t *rapid.T) Step { return p.genStep(t, conns, setupTable) }), 0, p.Setup).Draw(t, "setup")
	sc.Steps = append(sc.Steps, setup...)
	steps := rapid.SliceOfN(rapid.Custom(func(t *rapid.T) Step { return p.genStep(t, conns, table) }), max(1, p.MinSteps), p.MaxSteps).Draw(t, "steps")
	sc.Steps = append(sc.Steps, steps...)
	return sc
}

package props

import (
	"math"

	"pgregory.net/rapid"
)

// Profile tunes the script generator for one property: which operations are
// frequent, how many connections/steps, which modules.
type Profile struct {
	Name     string
	Setup    int // up to this many state-building steps after the initial joins
	MinSteps int
	MaxSteps int
	MaxConns int
	Modules  []string // nil = any subset
	W        map[Op]int
	JoinBias int  // percentage of connections that start with a join
	BigBody  int  // percentage of custom messages with a body near/over the limit
	NilSub   bool // generate requests with absent optional sub-messages
	Latency  bool // allow accepted signed-latency runs
	Receipts bool
}

var baseWeights = map[Op]int{
	OpJoin: 5, OpClose: 2, OpEntityAdd: 14, OpEntityDel: 6, OpPose: 8, OpCustom: 5,
	OpTypeAdd: 8, OpGetName: 2, OpGetID: 2, OpCompAdd: 10, OpCompDel: 4, OpCompUpdate: 6, OpCompList: 3,
	OpSub: 7, OpUnsub: 3, OpPing: 1, OpPingResp: 1, OpAction: 8, OpAsset: 6,
	OpQuad: 1, OpGround: 1, OpRegion: 1, OpDebug: 1, OpReceipt: 1, OpLatency: 1, OpUnknown: 1, OpNoTS: 0, OpTick: 8,
}

func weights(over map[Op]int) map[Op]int {
	w := map[Op]int{}
	for k, v := range baseWeights {
		w[k] = v
	}
	for k, v := range over {
		w[k] = v
	}
	return w
}

var opOrder = []Op{OpJoin, OpClose, OpEntityAdd, OpEntityDel, OpPose, OpCustom, OpTypeAdd, OpGetName, OpGetID, OpCompAdd, OpCompDel,
	OpCompUpdate, OpCompList, OpSub, OpUnsub, OpPing, OpPingResp, OpAction, OpAsset, OpQuad, OpGround, OpRegion, OpDebug, OpReceipt,
	OpLatency, OpUnknown, OpNoTS, OpTick}

func (p Profile) opTable() []Op {
	var t []Op
	for _, op := range opOrder {
		for i := 0; i < p.W[op]; i++ {
			t = append(t, op)
		}
	}
	return t
}

var interestingF32 = []uint32{
	0, 0x80000000, math.Float32bits(1), math.Float32bits(-1), 1 /*subnormal*/, math.Float32bits(3.4e38), math.Float32bits(-3.4e38),
	0x7fc00000 /*NaN*/, 0x7f800000 /*+Inf*/, 0xff800000 /*-Inf*/, math.Float32bits(0.5), math.Float32bits(123.456),
}

func genF32(t *rapid.T, label string) uint32 {
	if rapid.IntRange(0, 3).Draw(t, label+"_k") == 0 {
		return rapid.Uint32().Draw(t, label)
	}
	return rapid.SampledFrom(interestingF32).Draw(t, label)
}

func genPose(t *rapid.T) *[7]uint32 {
	var p [7]uint32
	// px doubles as a sequence number in most cases
	p[0] = math.Float32bits(float32(rapid.IntRange(0, 1000).Draw(t, "seq")))
	if rapid.IntRange(0, 2).Draw(t, "pose_kind") == 0 {
		for i := 0; i < 7; i++ {
			p[i] = genF32(t, "pf")
		}
	}
	return &p
}

func weighted(t *rapid.T, label string, kinds []string, w []int) string {
	total := 0
	for _, x := range w {
		total += x
	}
	r := rapid.IntRange(0, total-1).Draw(t, label)
	for i, x := range w {
		if r < x {
			return kinds[i]
		}
		r -= x
	}
	return kinds[len(kinds)-1]
}

func genEntRef(t *rapid.T) Ref {
	k := weighted(t, "ent_kind", []string{EntAlive, EntMine, EntForeign, EntEver, EntZero, EntNever}, []int{40, 25, 15, 8, 4, 8})
	return Ref{Kind: k, N: rapid.IntRange(0, 7).Draw(t, "ent_n")}
}

func genTypRef(t *rapid.T) Ref {
	k := weighted(t, "typ_kind", []string{TypEver, TypZero, TypNever}, []int{86, 5, 9})
	return Ref{Kind: k, N: rapid.IntRange(0, 3).Draw(t, "typ_n")}
}

func genSessRef(t *rapid.T) Ref {
	k := weighted(t, "sess_kind", []string{SessNew, SessLive, SessCurrent, SessEnded, SessGarbage}, []int{25, 50, 6, 10, 9})
	return Ref{Kind: k, N: rapid.IntRange(0, 9).Draw(t, "sess_n")}
}

func genData(t *rapid.T) []byte {
	return rapid.SliceOfN(rapid.Byte(), 0, 6).Draw(t, "data")
}

var unknownTypes = []uint32{1, 2, 4, 5, 6, 7, 9, 10, 12, 13, 15, 17, 19, 41, 43, 44, 99, 100, 102, 103, 200, 202, 203, 302, 304, 306, 1000, 1 << 30}

func genDagazF(t *rapid.T, n int, extents bool) []uint32 {
	f := make([]uint32, 0, n)
	for i := 0; i < n; i++ {
		var v float32
		if extents && i%6 >= 3 {
			v = float32(rapid.IntRange(1, 400).Draw(t, "ext")) / 100
		} else {
			v = float32(rapid.IntRange(-800, 800).Draw(t, "coord")) / 100
		}
		f = append(f, math.Float32bits(v))
	}
	return f
}

func (p Profile) genStep(t *rapid.T, conns int, table []Op) Step {
	st := Step{Conn: rapid.IntRange(0, conns-1).Draw(t, "conn"), Op: rapid.SampledFrom(table).Draw(t, "op")}
	switch st.Op {
	case OpJoin:
		st.Sess = genSessRef(t)
	case OpEntityAdd:
		st.Persist = rapid.IntRange(0, 9).Draw(t, "persist") < 3
		st.Flag = int32(rapid.IntRange(0, 1).Draw(t, "flag"))
		if rapid.IntRange(0, 4).Draw(t, "has_pose") != 0 {
			st.Pose = genPose(t)
		}
	case OpEntityDel:
		st.Ent = genEntRef(t)
	case OpPose:
		st.Ent = genEntRef(t)
		st.Pose = genPose(t)
		if p.NilSub && rapid.IntRange(0, 11).Draw(t, "nosub") == 0 {
			st.NoSub = true
		}
	case OpCustom:
		if rapid.IntRange(0, 99).Draw(t, "big") < p.BigBody {
			st.BigLen = rapid.SampledFrom([]int{10238, 10239, 10240, 10241, 10242, 10300, 20480, 65536, 1, 5000}).Draw(t, "biglen")
			st.Data = []byte{rapid.Byte().Draw(t, "bigseed")}
		} else {
			st.Data = genData(t)
		}
		n := rapid.SampledFrom([]int{0, 0, 0, 1, 1, 2, 3, 5}).Draw(t, "nrcpt")
		for i := 0; i < n; i++ {
			k := weighted(t, "rcpt_kind", []string{PMember, PSelf, PStranger, PGone}, []int{60, 12, 16, 12})
			st.Rcpts = append(st.Rcpts, Ref{Kind: k, N: rapid.IntRange(0, 5).Draw(t, "rcpt_n")})
		}
	case OpTypeAdd, OpGetID:
		st.Name = rapid.SampledFrom([]string{"", "a", "a", "b", "b", "c", "pose.v1"}).Draw(t, "tname")
	case OpGetName, OpCompList, OpSub, OpUnsub:
		st.Typ = genTypRef(t)
	case OpCompAdd, OpCompUpdate:
		st.Typ = genTypRef(t)
		st.Ent = genEntRef(t)
		st.Data = genData(t)
	case OpCompDel:
		st.Typ = genTypRef(t)
		st.Ent = genEntRef(t)
	case OpPingResp:
		st.Ent = Ref{Kind: weighted(t, "ping_kind", []string{PingOutstanding, PingAnswered, PingUnknown}, []int{70, 15, 15}), N: rapid.IntRange(0, 9).Draw(t, "ping_n")}
		st.TNano = int32(rapid.SampledFrom([]int{1, 2, 7, 10, 250, 1000, 15000, 1000000}).Draw(t, "delay_us"))
	case OpLatency:
		if p.Latency {
			st.Count = rapid.SampledFrom([]uint32{0, 2, 3, 3, 3, 4, 5, 8, 50, 51, 60, 1<<32 - 1}).Draw(t, "rounds")
			st.Name = rapid.SampledFrom([]string{"", "0xWALLET", "0xWALLET", "w"}).Draw(t, "wallet")
		} else {
			st.Count = rapid.SampledFrom([]uint32{0, 1, 2, 51, 60, 1<<32 - 1, 3, 5}).Draw(t, "rounds")
			if st.Count == 3 || st.Count == 5 {
				st.Name = ""
			} else {
				st.Name = rapid.SampledFrom([]string{"", "0xWALLET"}).Draw(t, "wallet")
			}
		}
	case OpAction:
		st.Ent = genEntRef(t)
		st.Name = rapid.SampledFrom([]string{"", "x", "x", "x", "y", "z"}).Draw(t, "aname")
		st.TSec = rapid.SampledFrom([]int64{0, 1, 5, 5, 5, 7, 10, 253402300799, -1}).Draw(t, "tsec")
		st.TNano = rapid.SampledFrom([]int32{0, 0, 1, 999999999}).Draw(t, "tnano")
		st.Data = genData(t)
		if rapid.IntRange(0, 19).Draw(t, "a_nots") == 0 {
			st.NoTS = true
		}
		if rapid.IntRange(0, 19).Draw(t, "a_nosub") == 0 {
			st.NoSub = true
		}
	case OpAsset:
		st.Ent = genEntRef(t)
		st.Name = rapid.SampledFrom([]string{"", "asset-a", "asset-a", "asset-b"}).Draw(t, "asset")
	case OpQuad:
		st.F = genDagazF(t, 6*rapid.IntRange(1, 3).Draw(t, "nquads"), true)
		st.NoSub = p.NilSub && rapid.IntRange(0, 7).Draw(t, "nosub") == 0
	case OpGround, OpRegion:
		st.F = genDagazF(t, 6, false)
		st.NoSub = p.NilSub && rapid.IntRange(0, 7).Draw(t, "nosub") == 0
	case OpReceipt:
		st.Name = rapid.SampledFrom([]string{"", "r", "receipt-text"}).Draw(t, "rtext")
		st.Hash = rapid.SampledFrom([][]byte{nil, {1}, {1, 2, 3}}).Draw(t, "rhash")
		st.Sig = rapid.SampledFrom([][]byte{nil, {9}, {9, 9}}).Draw(t, "rsig")
	case OpUnknown:
		st.Count = rapid.SampledFrom(unknownTypes).Draw(t, "utype")
	}
	return st
}

var allModules = []string{"vikja", "odal", "dagaz"}

// GenScript draws one script. All randomness comes from rapid.
func (p Profile) GenScript(t *rapid.T) Script {
	var sc Script
	sc.Cfg.Conns = rapid.IntRange(2, p.MaxConns).Draw(t, "conns")
	if p.Modules != nil {
		sc.Cfg.Modules = p.Modules
	} else {
		mask := rapid.SampledFrom([]int{7, 7, 7, 7, 3, 5, 6, 1, 2, 4, 0}).Draw(t, "modules")
		sc.Cfg.Modules = []string{}
		for i, m := range allModules {
			if mask&(1<<i) != 0 {
				sc.Cfg.Modules = append(sc.Cfg.Modules, m)
			}
		}
	}
	sc.Cfg.FrameMs = rapid.SampledFrom([]int{1, 15, 15, 50, 100}).Draw(t, "frame_ms")
	sc.Cfg.ReceiptCap = rapid.SampledFrom([]int{1, 2, 128}).Draw(t, "receipt_cap")
	table := p.opTable()
	// most connections start by joining: the first creates a session,
	// the others mostly join an existing one
	pre := rapid.SliceOfN(rapid.Custom(func(t *rapid.T) int {
		if rapid.IntRange(0, 99).Draw(t, "prejoin") >= p.JoinBias {
			return -1
		}
		if rapid.IntRange(0, 4).Draw(t, "pre_new") == 0 {
			return -2
		}
		return rapid.IntRange(0, 3).Draw(t, "pre_n")
	}), sc.Cfg.Conns, sc.Cfg.Conns).Draw(t, "prejoins")
	for c, k := range pre {
		switch {
		case k == -1:
		case k == -2 || c == 0:
			sc.Steps = append(sc.Steps, Step{Conn: c, Op: OpJoin, Sess: Ref{Kind: SessNew}})
		default:
			sc.Steps = append(sc.Steps, Step{Conn: c, Op: OpJoin, Sess: Ref{Kind: SessLive, N: k}})
		}
	}
	conns := sc.Cfg.Conns
	setupTable := []Op{OpEntityAdd, OpEntityAdd, OpEntityAdd, OpTypeAdd, OpTypeAdd, OpSub, OpSub, OpCompAdd, OpCompAdd, OpAction, OpAsset}
	setup := rapid.SliceOfN(rapid.Custom(func(t *rapid.T) Step { return p.genStep(t, conns, setupTable) }), 0, p.Setup).Draw(t, "setup")
	sc.Steps = append(sc.Steps, setup...)
	steps := rapid.SliceOfN(rapid.Custom(func(t *rapid.T) Step { return p.genStep(t, conns, table) }), max(1, p.MinSteps), p.MaxSteps).Draw(t, "steps")
	sc.Steps = append(sc.Steps, steps...)
	return sc
}

package props

import (
	"bytes"
	"fmt"
	"sort"
	"strings"
	"time"
)

// ---------------------------------------------------------------------------
// Reference model: a plain re-statement of the protocol, written from the
// property statements and the .proto comments. It never calls hagall code.
// Server-chosen values (session ids, participant/entity/type/asset ids, UUIDs)
// are learned from responses and checked for freshness.

type MEntity struct {
	ID      uint32
	Owner   uint32
	Persist bool
	Flag    int32
	Pose    [7]uint32
}

type MAction struct {
	Sec  int64
	Nano int32
	Data []byte
}

type MAsset struct {
	Inst    uint32
	AssetID string
	Pid     uint32
}

type CompKey struct{ Tid, Eid uint32 }

type MSession struct {
	ID   string
	UUID string
	Seq  int       // creation order
	Born time.Time // fake time of creation: the frame worker ticks at Born + k*frame

	Members  map[uint32]int // pid -> slot
	PidsEver []uint32
	PidsGone []uint32

	Ents     map[uint32]*MEntity
	EidsEver []uint32

	TypeByName map[string]uint32
	TypeByID   map[uint32]string
	TypeOrder  []uint32

	Comps map[CompKey][]byte
	Subs  map[uint32]map[uint32]bool // tid -> pids

	Actions      map[uint32]map[string]MAction
	Assets       map[uint32]MAsset
	AssetIDsEver map[uint32]bool

	HasVikja, HasOdal bool // module state exists only once a member with the module joined

	QuadSteps int // ground-plane sample messages sent by members of this session instance (valid or not)
}

func newMSession(id, uuid string, seq int) *MSession {
	return &MSession{
		ID: id, UUID: uuid, Seq: seq,
		Members:      map[uint32]int{},
		Ents:         map[uint32]*MEntity{},
		TypeByName:   map[string]uint32{},
		TypeByID:     map[uint32]string{},
		Comps:        map[CompKey][]byte{},
		Subs:         map[uint32]map[uint32]bool{},
		Actions:      map[uint32]map[string]MAction{},
		Assets:       map[uint32]MAsset{},
		AssetIDsEver: map[uint32]bool{},
	}
}

func (s *MSession) pidEver(pid uint32) bool {
	for _, p := range s.PidsEver {
		if p == pid {
			return true
		}
	}
	return false
}

func (s *MSession) eidEver(eid uint32) bool {
	for _, p := range s.EidsEver {
		if p == eid {
			return true
		}
	}
	return false
}

func (s *MSession) memberPids() []uint32 {
	out := make([]uint32, 0, len(s.Members))
	for p := range s.Members {
		out = append(out, p)
	}
	sort.Slice(out, func(i, j int) bool { return out[i] < out[j] })
	return out
}

func (s *MSession) hasSubs(tid uint32) bool { return len(s.Subs[tid]) > 0 }

// removeEntity drops an entity with everything attached to it.
func (s *MSession) removeEntity(eid uint32) {
	delete(s.Ents, eid)
	for k := range s.Comps {
		if k.Eid == eid {
			delete(s.Comps, k)
		}
	}
	delete(s.Actions, eid)
	delete(s.Assets, eid)
}

func (s *MSession) ownedBy(pid uint32, persistent *bool) []uint32 {
	var out []uint32
	for id, e := range s.Ents {
		if e.Owner == pid && (persistent == nil || e.Persist == *persistent) {
			out = append(out, id)
		}
	}
	sort.Slice(out, func(i, j int) bool { return out[i] < out[j] })
	return out
}

type MConn struct {
	Slot  int
	Sess  *MSession
	Pid   uint32
	Ended bool

	LastAct time.Time // when the server last consumed a message of this connection (idle timer)
	Stalled bool      // the client stopped reading

	PendingPose map[uint32]*Step // eid -> last unprocessed update
	PendingComp map[CompKey]*Step

	View *View
}

func (c *MConn) joined() bool { return c.Sess != nil && !c.Ended }

type Model struct {
	Live     []*MSession
	Ended    []*MSession
	UUIDs    map[string]bool
	Conns    map[int]*MConn
	sessSeq  int
	Receipts int // receipts queued (nobody consumes in model runs)
}

func NewModel() *Model {
	return &Model{UUIDs: map[string]bool{}, Conns: map[int]*MConn{}}
}

func (m *Model) liveByID(id string) *MSession {
	for _, s := range m.Live {
		if s.ID == id {
			return s
		}
	}
	return nil
}

func (m *Model) endSession(s *MSession) {
	for i, x := range m.Live {
		if x == s {
			m.Live = append(m.Live[:i:i], m.Live[i+1:]...)
			break
		}
	}
	m.Ended = append(m.Ended, s)
}

// ---------------------------------------------------------------------------
// Replica view: what a client library reconstructs from what it was sent.

type View struct {
	Parts             map[uint32]bool
	Ents              map[uint32]*MEntity // Persist unknown to clients (not transmitted)
	Comps             map[CompKey][]byte
	CompDef           map[uint32]bool // component types for which the view is defined
	Actions           map[uint32]map[string]MAction
	Assets            map[uint32]MAsset
	HasVikja, HasOdal bool
}

func newView() *View {
	return &View{Parts: map[uint32]bool{}, Ents: map[uint32]*MEntity{}, Comps: map[CompKey][]byte{}, CompDef: map[uint32]bool{},
		Actions: map[uint32]map[string]MAction{}, Assets: map[uint32]MAsset{}}
}

func (v *View) removeEntity(eid uint32) {
	delete(v.Ents, eid)
	for k := range v.Comps {
		if k.Eid == eid {
			delete(v.Comps, k)
		}
	}
	delete(v.Actions, eid)
	delete(v.Assets, eid)
}

// diffView compares a replica with the model state of its session.
func diffView(v *View, s *MSession) []Diff {
	var out []Diff
	for p := range s.Members {
		if !v.Parts[p] {
			out = append(out, Diff{"C06,C07", fmt.Sprintf("participant %d missing in view", p)})
		}
	}
	for p := range v.Parts {
		if _, ok := s.Members[p]; !ok {
			out = append(out, Diff{"C06,C07", fmt.Sprintf("view has participant %d that is not a member", p)})
		}
	}
	for id, e := range s.Ents {
		ve, ok := v.Ents[id]
		if !ok {
			out = append(out, Diff{"C05,C06", fmt.Sprintf("entity %d missing in view", id)})
			continue
		}
		if ve.Owner != e.Owner || ve.Flag != e.Flag || ve.Pose != e.Pose {
			out = append(out, Diff{"C11,C05", fmt.Sprintf("entity %d differs: view owner=%d flag=%d pose=%08x model owner=%d flag=%d pose=%08x", id, ve.Owner, ve.Flag, ve.Pose, e.Owner, e.Flag, e.Pose)})
		}
	}
	for id := range v.Ents {
		if _, ok := s.Ents[id]; !ok {
			out = append(out, Diff{"C05,C06", fmt.Sprintf("view has entity %d that does not exist", id)})
		}
	}
	for tid := range v.CompDef {
		for k, d := range s.Comps {
			if k.Tid != tid {
				continue
			}
			vd, ok := v.Comps[k]
			if !ok {
				out = append(out, Diff{"C12,C13,C06", fmt.Sprintf("component (%d,%d) missing in view", k.Tid, k.Eid)})
			} else if !bytes.Equal(vd, d) {
				out = append(out, Diff{"C12,C13,C06", fmt.Sprintf("component (%d,%d) data differs: view %x model %x", k.Tid, k.Eid, vd, d)})
			}
		}
		for k := range v.Comps {
			if k.Tid != tid {
				continue
			}
			if _, ok := s.Comps[k]; !ok {
				out = append(out, Diff{"C12,C13,C06", fmt.Sprintf("view has component (%d,%d) that does not exist", k.Tid, k.Eid)})
			}
		}
	}
	if v.HasVikja {
		for eid, as := range s.Actions {
			for n, a := range as {
				va, ok := v.Actions[eid][n]
				if !ok {
					out = append(out, Diff{"C16,C06", fmt.Sprintf("action (%d,%q) missing in view", eid, n)})
				} else if va.Sec != a.Sec || va.Nano != a.Nano || !bytes.Equal(va.Data, a.Data) {
					out = append(out, Diff{"C16,C06", fmt.Sprintf("action (%d,%q) differs", eid, n)})
				}
			}
		}
		for eid, as := range v.Actions {
			for n := range as {
				if _, ok := s.Actions[eid][n]; !ok {
					out = append(out, Diff{"C16,C06", fmt.Sprintf("view has action (%d,%q) that does not exist", eid, n)})
				}
			}
		}
	}
	if v.HasOdal {
		for eid, a := range s.Assets {
			va, ok := v.Assets[eid]
			if !ok {
				out = append(out, Diff{"C16,C06", fmt.Sprintf("asset of entity %d missing in view", eid)})
			} else if va != a {
				out = append(out, Diff{"C16,C06", fmt.Sprintf("asset of entity %d differs: view %+v model %+v", eid, va, a)})
			}
		}
		for eid := range v.Assets {
			if _, ok := s.Assets[eid]; !ok {
				out = append(out, Diff{"C16,C06", fmt.Sprintf("view has asset for entity %d that does not exist", eid)})
			}
		}
	}
	sortDiffs(out)
	return out
}

// Diff is one difference between an observed state and the reference, tagged
// with the properties it speaks about.
type Diff struct {
	Tags string
	Msg  string
}

func sortDiffs(d []Diff) {
	sort.Slice(d, func(i, j int) bool { return d[i].Msg < d[j].Msg })
}

func joinDiffs(d []Diff) (tags string, msg string) {
	seen := map[string]bool{}
	var ts, ms []string
	for _, x := range d {
		for _, t := range strings.Split(x.Tags, ",") {
			if t != "" && !seen[t] {
				seen[t] = true
				ts = append(ts, t)
			}
		}
		ms = append(ms, x.Msg)
	}
	return strings.Join(ts, ","), strings.Join(ms, "; ")
}

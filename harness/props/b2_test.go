package props

import (
	"fmt"
	"io"
	"net"
	"sort"
	"strings"
	"testing"
	"time"

	"github.com/aukilabs/hagall-common/messages/dagazpb"
	"github.com/aukilabs/hagall-common/messages/hagallpb"
	"github.com/aukilabs/hagall-common/messages/odalpb"
	"github.com/aukilabs/hagall-common/messages/vikjapb"
	"github.com/aukilabs/hagall/modules/dagaz"
	"github.com/ethereum/go-ethereum/common/hexutil"
	"github.com/ethereum/go-ethereum/crypto"
	"golang.org/x/net/websocket"
	"google.golang.org/protobuf/proto"
	"google.golang.org/protobuf/types/known/timestamppb"
	"pgregory.net/rapid"
)

// ---------------------------------------------------------------------------
// C18 through the binary: the report is signed with the wallet key the server
// was CONFIGURED with (HAGALL_PRIVATE_KEY, with or without 0x prefix), names the
// real client id / session UUID / wallet and lists the pings actually issued.

func TestC18Binary(t *testing.T) {
	col := NewCollector("C18", "binary", "the real binary started with a drawn wallet key (three keys, plain or 0x-prefixed): a client joins, asks for a signed latency measurement of 3-8 rounds with a drawn wallet address and answers every ping at once; the final response's signature must recover (independent Keccak-256 + secp256k1 recovery) to the address of the configured key over exactly the returned bytes, the data must name the client id sent in the handshake, the session UUID of the join response, the wallet, the round count and exactly the ping ids seen, with consistent statistics; non-trivial = every distinct drawn case")
	t.Cleanup(col.Write)
	keys := []string{
		"4c0883a69102937d6231471b5dbb6204fe5129617082792ae468d01a3f362318",
		"6370fd033278c143179d81c5526140625662b8daa446c22ee2d73db3707e620c",
		"646f1ce2fdad0e6deeeb5c7e8e5543bdde65e86029e2fd9fc169899c440a7913",
	}
	rapid.Check(t, func(rt *rapid.T) {
		key := pick(rt, "key", keys)
		envKey := key
		if uni(rt, "prefixed", 2) == 0 {
			envKey = "0x" + key
		}
		n := uint32(3 + uni(rt, "rounds", 6))
		wallet := pick(rt, "wallet", []string{"0x52908400098527886E0F7030069857D2E4169EE7", "0xde709f2102306220921060314715629080e2fb77", "w"})
		p, err := startB("", true, "HAGALL_PRIVATE_KEY="+envKey)
		if err != nil {
			rt.Skip("inconclusive: " + err.Error())
		}
		defer p.stop()
		want, _ := crypto.HexToECDSA(key)
		ts := func() *timestamppb.Timestamp { return timestamppb.Now() }
		ws, err := p.dial([]string{"header"}, p.validToken())
		if err != nil {
			rt.Skip("dial failed")
		}
		defer ws.Close()
		wsSend(ws, &hagallpb.ParticipantJoinRequest{Type: TJoinReq, Timestamp: ts(), RequestId: 1})
		rx, ok := wsUntil(ws, TJoinResp, 5*time.Second)
		if !ok {
			rt.Skip("join not answered")
		}
		uuid := rx[len(rx)-1].M.(*hagallpb.ParticipantJoinResponse).SessionUuid
		wsSend(ws, &hagallpb.SignedLatencyRequest{Type: TSignedLatencyReq, Timestamp: ts(), RequestId: 7, IterationCount: n, WalletAddress: wallet})
		var issued []uint32
		var resp *hagallpb.SignedLatencyResponse
		deadline := time.Now().Add(10 * time.Second)
		for resp == nil && time.Now().Before(deadline) {
			r, err := wsRecv(ws, time.Until(deadline))
			if err != nil {
				break
			}
			if r.T == TPingReq {
				issued = append(issued, r.ReqID())
				wsSend(ws, &hagallpb.Response{Type: TPingResp, Timestamp: ts(), RequestId: r.ReqID()})
			}
			if m, ok := r.M.(*hagallpb.SignedLatencyResponse); ok {
				resp = m
			}
		}
		col.Case(fmt.Sprintf("%s/%d/%s", envKey, n, wallet), true, map[string]int{"key_with_0x_prefix": b2i(envKey != key)}, func() any {
			return map[string]any{"key": envKey[:10] + "..", "rounds": n, "wallet": wallet}
		})
		bad := func(f string, a ...any) {
			col.Violations++
			saveCase("C18", map[string]any{"key": envKey, "rounds": n, "wallet": wallet})
			rt.Fatalf("C18 violated (binary): "+f, a...)
		}
		if resp == nil {
			// slow, or never coming? a ping of ours after the last answer settles it
			if _, st := wsAwait(ws, time.Second, TSignedLatencyResp); st != "skipped" {
				rt.Skip("no verdict on the final response (" + st + ")")
			}
			bad("%d pings were answered but no signed latency response followed (the connection answers later requests)", len(issued))
		}
		if resp.RequestId != 7 {
			bad("response echoes request id %d, sent 7", resp.RequestId)
		}
		sig, err := hexutil.Decode(resp.Signature)
		if err != nil || len(sig) != 65 {
			bad("signature %q is not a 65-byte hex string", resp.Signature)
		}
		pub, err := crypto.SigToPub(keccak(resp.Data), sig)
		if err != nil {
			bad("signature does not recover a key: %v", err)
		}
		if crypto.PubkeyToAddress(*pub) != crypto.PubkeyToAddress(want.PublicKey) {
			bad("signature recovers %s, the wallet of the configured key is %s", crypto.PubkeyToAddress(*pub), crypto.PubkeyToAddress(want.PublicKey))
		}
		var d hagallpb.LatencyData
		if err := proto.Unmarshal(resp.Data, &d); err != nil {
			bad("returned data does not decode: %v", err)
		}
		got := append([]uint32{}, d.PingRequestIds...)
		sort.Slice(got, func(i, j int) bool { return got[i] < got[j] })
		sort.Slice(issued, func(i, j int) bool { return issued[i] < issued[j] })
		switch {
		case d.ClientId != "b-client":
			bad("data names client %q, the handshake said b-client", d.ClientId)
		case d.SessionId != uuid:
			bad("data names session %q, the join response said %q", d.SessionId, uuid)
		case d.WalletAddress != wallet:
			bad("data names wallet %q, requested %q", d.WalletAddress, wallet)
		case d.IterationCount != n || uint32(len(issued)) != n:
			bad("%d rounds requested, %d pings seen, data reports %d", n, len(issued), d.IterationCount)
		case fmt.Sprint(got) != fmt.Sprint(issued):
			bad("data lists ping ids %v, the client saw %v", got, issued)
		case !(0 <= d.Min && d.Min <= d.Mean && d.Mean <= d.Max) || d.P95 < d.Min || d.P95 > d.Max || d.Last < d.Min || d.Last > d.Max:
			bad("statistics inconsistent: min=%v mean=%v max=%v p95=%v last=%v", d.Min, d.Mean, d.Max, d.P95, d.Last)
		}
	})
}

// ---------------------------------------------------------------------------
// C16 through the binary: the vikja and odal modules are loaded and share
// their state across connections (wiring in cmd/main.go).

func TestC16Binary(t *testing.T) {
	col := NewCollector("C16", "binary", "the real binary: A and B in one session; A adds an entity, sends entity actions (drawn names, an older one after a newer one) and 1-3 asset instances for it; B must receive the accepted ones as broadcasts, the older action must be refused, and a newcomer C must be handed exactly the latest action per name and the last asset (fresh instance id) in VIKJA_STATE / ODAL_STATE; non-trivial = every distinct drawn case")
	t.Cleanup(col.Write)
	p, err := startB("", true)
	if err != nil {
		t.Skipf("inconclusive: %v", err)
	}
	defer p.stop()
	rapid.Check(t, func(rt *rapid.T) {
		tok := p.validToken()
		ts := func() *timestamppb.Timestamp { return timestamppb.Now() }
		type cl struct{ ws *websocket.Conn }
		dial := func() (*cl, bool) {
			ws, err := p.dial([]string{"header"}, tok)
			if err != nil {
				return nil, false
			}
			return &cl{ws: ws}, true
		}
		a, ok1 := dial()
		b, ok2 := dial()
		if !ok1 || !ok2 {
			rt.Skip("dial failed")
		}
		defer a.ws.Close()
		defer b.ws.Close()
		wsSend(a.ws, &hagallpb.ParticipantJoinRequest{Type: TJoinReq, Timestamp: ts(), RequestId: 1})
		rx, ok := wsUntil(a.ws, TJoinResp, 5*time.Second)
		if !ok {
			rt.Skip("join not answered")
		}
		sid := rx[len(rx)-1].M.(*hagallpb.ParticipantJoinResponse).SessionId
		wsSend(b.ws, &hagallpb.ParticipantJoinRequest{Type: TJoinReq, Timestamp: ts(), RequestId: 1, SessionId: sid})
		if _, ok := wsUntil(b.ws, TJoinResp, 5*time.Second); !ok {
			rt.Skip("join not answered")
		}
		wsSend(a.ws, &hagallpb.EntityAddRequest{Type: TEntityAddReq, Timestamp: ts(), RequestId: 2, Persist: true})
		rx, ok = wsUntil(a.ws, TEntityAddResp, 5*time.Second)
		if !ok {
			rt.Skip("entity add not answered")
		}
		eid := rx[len(rx)-1].M.(*hagallpb.EntityAddResponse).EntityId
		bad := func(f string, x ...any) {
			col.Violations++
			rt.Fatalf("C16 violated (binary): "+f, x...)
		}
		// actions: name -> latest timestamp accepted
		latest := map[string]int64{}
		nAct := 1 + uni(rt, "actions", 4)
		req := uint32(10)
		for i := 0; i < nAct; i++ {
			name := pick(rt, "name", []string{"x", "y"})
			sec := int64(1000 + uni(rt, "sec", 6)*10)
			req++
			wsSend(a.ws, &vikjapb.EntityActionRequest{Type: TActionReq, Timestamp: ts(), RequestId: req, EntityAction: &vikjapb.EntityAction{EntityId: eid, Name: name, Timestamp: &timestamppb.Timestamp{Seconds: sec}, Data: []byte{byte(i)}}})
			r, st := wsAwait(a.ws, 5*time.Second, TActionResp, TError)
			if st == "inconclusive" {
				rt.Skip("server too slow: inconclusive")
			}
			if st != "got" {
				bad("entity action request %d got no answer (%s): is the vikja module loaded?", req, st)
			}
			accepted := r.T == TActionResp
			old, had := latest[name]
			if wantAccept := !had || sec >= old; accepted != wantAccept {
				bad("action %q at t=%d (stored t=%d, stored=%v): accepted=%v", name, sec, old, had, accepted)
			}
			if accepted {
				latest[name] = sec
				if _, ok := wsUntil(b.ws, TActionBcast, 20*time.Second); !ok {
					bad("the other member did not receive the accepted action %q within 20 s", name)
				}
			}
		}
		nAsset := 1 + uni(rt, "assets", 3)
		var lastInst, lastAsset string
		seenInst := map[string]bool{}
		for i := 0; i < nAsset; i++ {
			req++
			asset := fmt.Sprintf("asset-%d", uni(rt, "asset", 3))
			wsSend(a.ws, &odalpb.AssetInstanceAddRequest{Type: TAssetReq, Timestamp: ts(), RequestId: req, EntityId: eid, AssetId: asset})
			r, st := wsAwait(a.ws, 5*time.Second, TAssetResp, TError)
			if st == "inconclusive" {
				rt.Skip("server too slow: inconclusive")
			}
			if st != "got" || r.T != TAssetResp {
				bad("asset instance add %d was not accepted (%s, answer type %d): is the odal module loaded?", req, st, r.T)
			}
			inst := r.M.(*odalpb.AssetInstanceAddResponse).AssetInstanceId
			if seenInst[fmt.Sprint(inst)] {
				bad("asset instance id %v was issued twice", inst)
			}
			seenInst[fmt.Sprint(inst)] = true
			lastInst, lastAsset = fmt.Sprint(inst), asset
			if _, ok := wsUntil(b.ws, TAssetBcast, 20*time.Second); !ok {
				bad("the other member did not receive the asset instance broadcast within 20 s")
			}
		}
		col.Case(fmt.Sprintf("%v/%d/%d", latest, nAct, nAsset), true, map[string]int{"actions": nAct, "assets": nAsset}, func() any {
			return map[string]any{"actions": nAct, "assets": nAsset, "latest": latest}
		})
		// the newcomer
		c, ok3 := dial()
		if !ok3 {
			rt.Skip("dial failed")
		}
		defer c.ws.Close()
		wsSend(c.ws, &hagallpb.ParticipantJoinRequest{Type: TJoinReq, Timestamp: ts(), RequestId: 1, SessionId: sid})
		var vs *vikjapb.State
		var os_ *odalpb.State
		deadline := time.Now().Add(5 * time.Second)
		for (vs == nil || os_ == nil) && time.Now().Before(deadline) {
			r, err := wsRecv(c.ws, time.Until(deadline))
			if err != nil {
				break
			}
			switch m := r.M.(type) {
			case *vikjapb.State:
				vs = m
			case *odalpb.State:
				os_ = m
			}
		}
		if vs == nil || os_ == nil {
			bad("the newcomer was not handed VIKJA_STATE (%v) and ODAL_STATE (%v)", vs != nil, os_ != nil)
		}
		got := map[string]int64{}
		for _, a := range vs.EntityActions {
			if a.EntityId == eid {
				got[a.Name] = a.Timestamp.GetSeconds()
			}
		}
		if fmt.Sprint(got) != fmt.Sprint(latest) {
			bad("the newcomer is handed actions %v, the latest accepted ones are %v", got, latest)
		}
		n := 0
		for _, ai := range os_.AssetInstances {
			if ai.EntityId == eid {
				n++
				if fmt.Sprint(ai.Id) != lastInst || ai.AssetId != lastAsset {
					bad("the newcomer is handed asset instance %v (%s), the last one added is %s (%s)", ai.Id, ai.AssetId, lastInst, lastAsset)
				}
			}
		}
		if n != 1 {
			bad("the newcomer is handed %d asset instances for the entity, expected exactly 1", n)
		}
	})
}

// wsAwait waits for an answer of one of the wanted types without turning slowness into a verdict.
// After `first` without it, a ping is sent on the same connection: a connection's requests are
// handled one after the other and answered through one queue, so if the PONG arrives and the
// awaited answer still has not, the request was definitely not answered ("skipped"); if neither
// arrives within a further 30 s the machine is too busy to tell ("inconclusive").
func wsAwait(ws *websocket.Conn, first time.Duration, want ...int32) (rx Rx, status string) {
	match := func(r Rx) bool {
		for _, w := range want {
			if r.T == w {
				return true
			}
		}
		return false
	}
	deadline := time.Now().Add(first)
	probed := false
	const probeID = 0xFFFFFF01
	for {
		r, err := wsRecv(ws, time.Until(deadline))
		if err == nil {
			if match(r) {
				return r, "got"
			}
			if probed && r.T == TPingResp && r.ReqID() == probeID {
				return Rx{}, "skipped"
			}
			continue
		}
		if ne, ok := err.(net.Error); !ok || !ne.Timeout() {
			if err == io.EOF || strings.Contains(err.Error(), "closed") || strings.Contains(err.Error(), "reset") {
				return Rx{}, "closed"
			}
			continue // a frame this client does not decode
		}
		if probed {
			return Rx{}, "inconclusive"
		}
		probed = true
		wsSend(ws, &hagallpb.Request{Type: TPingReq, Timestamp: timestamppb.Now(), RequestId: probeID})
		deadline = time.Now().Add(30 * time.Second)
	}
}

// wsUntilAny reads until a message of one of the wanted types arrives.
func wsUntilAny(ws *websocket.Conn, d time.Duration, want ...int32) (Rx, bool) {
	deadline := time.Now().Add(d)
	for time.Now().Before(deadline) {
		r, err := wsRecv(ws, time.Until(deadline))
		if err != nil {
			if ne, ok := err.(net.Error); ok && ne.Timeout() {
				return Rx{}, false
			}
			if err == io.EOF {
				return Rx{}, false
			}
			continue
		}
		for _, w := range want {
			if r.T == w {
				return r, true
			}
		}
	}
	return Rx{}, false
}

// ---------------------------------------------------------------------------
// C20 through the binary: the dagaz module is loaded and its index is shared
// by the members of a session (and not by another session).

func TestC20Binary(t *testing.T) {
	col := NewCollector("C20", "binary", "the real binary: A and B in one session, D alone in another; A (then B) sends 1-4 drawn horizontal quad samples; after each, B, a newcomer C and D ask for the region covering everything: B and C must be returned exactly as many planes as a local RegularGrid fed with the same samples holds, D none; non-trivial = every distinct drawn case")
	t.Cleanup(col.Write)
	p, err := startB("", true)
	if err != nil {
		t.Skipf("inconclusive: %v", err)
	}
	defer p.stop()
	rapid.Check(t, func(rt *rapid.T) {
		tok := p.validToken()
		ts := func() *timestamppb.Timestamp { return timestamppb.Now() }
		join := func(sid string) (*websocket.Conn, string, bool) {
			ws, err := p.dial([]string{"header"}, tok)
			if err != nil {
				return nil, "", false
			}
			wsSend(ws, &hagallpb.ParticipantJoinRequest{Type: TJoinReq, Timestamp: ts(), RequestId: 1, SessionId: sid})
			rx, ok := wsUntil(ws, TJoinResp, 5*time.Second)
			if !ok {
				ws.Close()
				return nil, "", false
			}
			return ws, rx[len(rx)-1].M.(*hagallpb.ParticipantJoinResponse).SessionId, true
		}
		a, sid, ok1 := join("")
		if !ok1 {
			rt.Skip("join failed")
		}
		defer a.Close()
		b, _, ok2 := join(sid)
		d, _, ok3 := join("")
		if !ok2 || !ok3 {
			rt.Skip("join failed")
		}
		defer b.Close()
		defer d.Close()
		region := func(ws *websocket.Conn, req uint32) int {
			wsSend(ws, &dagazpb.DagazGetRegionRequest{Type: TRegionReq, Timestamp: ts(), RequestId: req, Min: &dagazpb.Point{X: -500, Z: -500}, Max: &dagazpb.Point{X: 500, Z: 500}})
			r, st := wsAwait(ws, 5*time.Second, TRegionResp, TError)
			if st == "inconclusive" {
				rt.Skip("server too slow: inconclusive")
			}
			if st != "got" || r.T != TRegionResp {
				return -1
			}
			return len(r.M.(*dagazpb.DagazGetRegionResponse).Quads)
		}
		ref := dagaz.NewRegularGrid(1, 1, 2)
		qs := genQuads(rt)
		if len(qs) > 4 {
			qs = qs[:4]
		}
		for i, q := range qs {
			sender := a
			if i%2 == 1 {
				sender = b
			}
			wsSend(sender, &dagazpb.DagazQuadSample{Type: TQuadSample, Timestamp: ts(), Samples: []*dagazpb.Quad{q.proto()}})
			ref.InsertQuad(dagaz.NewQuadFromProtobuf(q.proto()))
			// the sample has no answer: a ping on the same connection orders it before the queries
			wsSend(sender, &hagallpb.Request{Type: TPingReq, Timestamp: ts(), RequestId: uint32(50 + i)})
			wsUntil(sender, TPingResp, 5*time.Second)
			want := len(ref.GetRegion(dagaz.NewVector3f(-500, 0, -500), dagaz.NewVector3f(500, 0, 500)))
			if got := region(b, uint32(100+i)); got != want {
				col.Violations++
				rt.Fatalf("C20 violated (binary): after sample %d a member of the session is returned %d planes, the samples sent make %d (is the dagaz module loaded and its index shared?)", i+1, got, want)
			}
			if got := region(d, uint32(100+i)); got != 0 {
				col.Violations++
				rt.Fatalf("C20 violated (binary): a member of ANOTHER session is returned %d planes after sample %d", got, i+1)
			}
		}
		c, _, ok4 := join(sid)
		if !ok4 {
			rt.Skip("join failed")
		}
		defer c.Close()
		want := len(ref.GetRegion(dagaz.NewVector3f(-500, 0, -500), dagaz.NewVector3f(500, 0, 500)))
		got := region(c, 900)
		col.Case(fmt.Sprint(qs), true, map[string]int{"samples": len(qs)}, func() any { return map[string]any{"samples": len(qs), "planes": want} })
		if got != want {
			col.Violations++
			rt.Fatalf("C20 violated (binary): a newcomer is returned %d planes, the session's samples make %d", got, want)
		}
	})
}

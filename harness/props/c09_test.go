package props

import (
	"context"
	"fmt"
	"math/rand"
	"os"
	"sync"
	"sync/atomic"
	"testing"
	"time"

	"github.com/aukilabs/hagall-common/messages/dagazpb"
	"github.com/aukilabs/hagall-common/messages/hagallpb"
	"github.com/aukilabs/hagall-common/messages/odalpb"
	"github.com/aukilabs/hagall-common/messages/vikjapb"
	hwebsocket "github.com/aukilabs/hagall-common/websocket"
	hws "github.com/aukilabs/hagall/websocket"
	"golang.org/x/net/websocket"
	"google.golang.org/protobuf/proto"
	"google.golang.org/protobuf/types/known/timestamppb"
	"pgregory.net/rapid"
)

// ---------------------------------------------------------------------------
// C09, driver R: real goroutines on real threads, real time, race detector.
// 2-16 clients hammer 1-2 shared sessions with all modules loaded; the wire
// variant goes through websocket.Handle with the production decorators, the
// bare variant calls the handlers directly (more contention per second).
// Oracles: the race detector (the test binary is built with -race; the
// testing package fails the test when a race is reported), every request gets
// its answer, every client finishes (watchdog = inconclusive), nothing is
// left behind at the end.

type rCase struct {
	Clients  int   `json:"clients"`
	Sessions int   `json:"sessions"`
	Ops      int   `json:"ops_per_client"`
	Seed     int64 `json:"op_seed"`
	Wire     bool  `json:"wire"`
}

type rClient struct {
	id      int
	send    func(p proto.Message) error
	waitFor func(req uint32, types ...int32) (Rx, bool)
	mine    []uint32
	pid     uint32
}

func nowTS() *timestamppb.Timestamp { return timestamppb.Now() }

// opMix performs n pseudo-random requests; the sequence is a pure function of
// the seed (drawn by rapid), the interleaving is up to the Go scheduler.
func (c *rClient) opMix(rng *rand.Rand, n int, sid string, answered *int64) error {
	req := uint32(c.id*100000 + 10)
	call := func(p proto.Message, id uint32, types ...int32) (Rx, error) {
		if err := c.send(p); err != nil {
			return Rx{}, fmt.Errorf("send failed: %v", err)
		}
		rx, ok := c.waitFor(id, append(types, TError)...)
		if !ok {
			return Rx{}, fmt.Errorf("request %d (%T) was not answered", id, p)
		}
		atomic.AddInt64(answered, 1)
		return rx, nil
	}
	req++
	rx, err := call(&hagallpb.ParticipantJoinRequest{Type: TJoinReq, Timestamp: nowTS(), RequestId: req, SessionId: sid}, req, TJoinResp)
	if err != nil {
		return err
	}
	if jr, ok := rx.M.(*hagallpb.ParticipantJoinResponse); ok {
		c.pid = jr.ParticipantId
	} else if er, ok := rx.M.(*hagallpb.ErrorResponse); ok && er.Code == cNotFound {
		// the session ended meanwhile (its members left): start a new one
		req++
		if rx, err = call(&hagallpb.ParticipantJoinRequest{Type: TJoinReq, Timestamp: nowTS(), RequestId: req}, req, TJoinResp); err != nil {
			return err
		}
		if _, ok := rx.M.(*hagallpb.ParticipantJoinResponse); !ok {
			return fmt.Errorf("creating a session refused: %v", rx)
		}
	} else if !ok || er.Code != cAlready {
		return fmt.Errorf("join of %q refused: %v", sid, rx)
	}
	req++
	rx, err = call(&hagallpb.EntityComponentTypeAddRequest{Type: TTypeAddReq, Timestamp: nowTS(), RequestId: req, EntityComponentTypeName: "shared"}, req, TTypeAddResp)
	if err != nil {
		return err
	}
	tid := uint32(1)
	if tr, ok := rx.M.(*hagallpb.EntityComponentTypeAddResponse); ok {
		tid = tr.EntityComponentTypeId
	}
	for i := 0; i < n; i++ {
		req++
		var eid uint32
		if len(c.mine) > 0 {
			eid = c.mine[rng.Intn(len(c.mine))]
		}
		other := uint32(rng.Intn(12) + 1)
		switch k := rng.Intn(20); k {
		case 0, 1, 2:
			rx, err = call(&hagallpb.EntityAddRequest{Type: TEntityAddReq, Timestamp: nowTS(), RequestId: req, Persist: rng.Intn(4) == 0, Pose: &hagallpb.Pose{Px: float32(i)}}, req, TEntityAddResp)
			if r, ok := rx.M.(*hagallpb.EntityAddResponse); ok && err == nil {
				c.mine = append(c.mine, r.EntityId)
			}
		case 3:
			if eid != 0 {
				_, err = call(&hagallpb.EntityDeleteRequest{Type: TEntityDelReq, Timestamp: nowTS(), RequestId: req, EntityId: eid}, req, TEntityDelResp)
				for j, m := range c.mine {
					if m == eid {
						c.mine = append(c.mine[:j], c.mine[j+1:]...)
						break
					}
				}
			}
		case 4, 5:
			err = c.send(&hagallpb.EntityUpdatePose{Type: TPose, Timestamp: nowTS(), EntityId: eid, Pose: &hagallpb.Pose{Px: float32(i)}})
		case 6:
			err = c.send(&hagallpb.CustomMessage{Type: TCustom, Timestamp: nowTS(), Body: []byte{byte(i)}})
		case 7:
			_, err = call(&hagallpb.EntityComponentAddRequest{Type: TCompAddReq, Timestamp: nowTS(), RequestId: req, EntityComponentTypeId: tid, EntityId: other, Data: []byte{1}}, req, TCompAddResp)
		case 8:
			err = c.send(&hagallpb.EntityComponentUpdate{Type: TCompUpdate, Timestamp: nowTS(), EntityComponentTypeId: tid, EntityId: other, Data: []byte{byte(i)}})
		case 9:
			_, err = call(&hagallpb.EntityComponentDeleteRequest{Type: TCompDelReq, Timestamp: nowTS(), RequestId: req, EntityComponentTypeId: tid, EntityId: other}, req, TCompDelResp)
		case 10:
			_, err = call(&hagallpb.EntityComponentTypeSubscribeRequest{Type: TSubReq, Timestamp: nowTS(), RequestId: req, EntityComponentTypeId: tid}, req, TSubResp)
		case 11:
			_, err = call(&hagallpb.EntityComponentTypeUnsubscribeRequest{Type: TUnsubReq, Timestamp: nowTS(), RequestId: req, EntityComponentTypeId: tid}, req, TUnsubResp)
		case 12:
			_, err = call(&hagallpb.EntityComponentListRequest{Type: TCompListReq, Timestamp: nowTS(), RequestId: req, EntityComponentTypeId: tid}, req, TCompListResp)
		case 13:
			_, err = call(&vikjapb.EntityActionRequest{Type: TActionReq, Timestamp: nowTS(), RequestId: req, EntityAction: &vikjapb.EntityAction{EntityId: other, Name: "a", Timestamp: nowTS()}}, req, TActionResp)
		case 14:
			_, err = call(&odalpb.AssetInstanceAddRequest{Type: TAssetReq, Timestamp: nowTS(), RequestId: req, EntityId: eid, AssetId: "asset"}, req, TAssetResp)
		case 15:
			x := float32(rng.Intn(40) - 20)
			err = c.send(&dagazpb.DagazQuadSample{Type: TQuadSample, Timestamp: nowTS(), Samples: []*dagazpb.Quad{{Center: &dagazpb.Point{X: x, Y: 0, Z: x / 2}, Extents: &dagazpb.Point{X: 1.5, Z: 1.5}}}})
		case 16:
			x := float32(rng.Intn(40) - 20)
			_, err = call(&dagazpb.DagazGetGroundPlaneRequest{Type: TGroundReq, Timestamp: nowTS(), RequestId: req, Ray: &dagazpb.Ray{From: &dagazpb.Point{X: x, Y: 1, Z: x / 2}, To: &dagazpb.Point{X: x, Y: -1, Z: x / 2}}}, req, TGroundResp)
		case 17:
			_, err = call(&dagazpb.DagazGetRegionRequest{Type: TRegionReq, Timestamp: nowTS(), RequestId: req, Min: &dagazpb.Point{X: -30, Z: -30}, Max: &dagazpb.Point{X: 30, Z: 30}}, req, TRegionResp)
		case 18:
			_, err = call(&dagazpb.DagazGetDebugInfoRequest{Type: TDebugReq, Timestamp: nowTS(), RequestId: req}, req, TDebugResp)
		default:
			_, err = call(&hagallpb.Request{Type: TPingReq, Timestamp: nowTS(), RequestId: req}, req, TPingResp)
		}
		if err != nil {
			return err
		}
	}
	return nil
}

var errWatchdog = fmt.Errorf("watchdog")

func runReal(c rCase) (viol string, inconclusive bool, answered int64) {
	cfg := Config{Modules: allModules, FrameMs: 1, Conns: c.Clients}
	gauge0 := sessionGauge()
	var wg sync.WaitGroup
	errs := make([]error, c.Clients)
	sids := make([]string, c.Sessions)
	var sidMu sync.Mutex
	getSID := func(i int, create func() string) string {
		sidMu.Lock()
		defer sidMu.Unlock()
		if sids[i] == "" {
			sids[i] = create()
		}
		return sids[i]
	}
	_ = getSID
	done := make(chan struct{})
	if c.Wire {
		w := NewWWorld(cfg, WOpts{Real: true, IdleTimeout: time.Minute, SyncClock: 5 * time.Millisecond, SummaryEvery: 3 * time.Millisecond})
		for i := 0; i < c.Clients; i++ {
			w.Connect(i)
		}
		// the first client of every session creates it
		for s := 0; s < c.Sessions; s++ {
			wc := w.conns[s]
			b, _ := proto.Marshal(&hagallpb.ParticipantJoinRequest{Type: TJoinReq, Timestamp: nowTS(), RequestId: 1})
			websocket.Message.Send(wc.ws, b)
			rx, ok := waitInbox(wc, 1, 30*time.Second, TJoinResp)
			if !ok {
				return "", true, 0
			}
			sids[s] = rx.M.(*hagallpb.ParticipantJoinResponse).SessionId
		}
		for i := 0; i < c.Clients; i++ {
			wc := w.conns[i]
			cl := &rClient{id: i,
				send: func(p proto.Message) error {
					b, err := proto.Marshal(p)
					if err != nil {
						return err
					}
					return websocket.Message.Send(wc.ws, b)
				},
				// no wall-clock verdict on a single request: a lost answer shows as "no request answered
				// for 45 s while clients wait" (awaitClients), which a busy machine cannot produce
				waitFor: func(req uint32, types ...int32) (Rx, bool) { return waitInbox(wc, req, 150*time.Second, types...) },
			}
			wg.Add(1)
			go func(i int) {
				defer wg.Done()
				rng := rand.New(rand.NewSource(c.Seed + int64(i)))
				sid := sids[i%c.Sessions]
				if i < c.Sessions {
					sid = sids[(i+1)%c.Sessions] // the creators switch to the neighbouring session first
				}
				errs[i] = cl.opMix(rng, c.Ops, sid, &answered)
			}(i)
		}
		go func() { wg.Wait(); close(done) }()
		if v, inc := awaitClients(done, &answered); v != "" || inc {
			return v, inc, answered
		}
		for i := 0; i < c.Clients; i++ {
			w.conns[i].ws.Close()
		}
		// everything must wind down
		deadline := time.Now().Add(60 * time.Second) // generous: only a leak lasts this long, a busy machine does not
		for {
			l := w.Leaks()
			live := 0
			for _, sid := range sids {
				if _, ok := w.store.GetByGlobalID(sid); ok {
					live++
				}
			}
			if len(l) == 0 && live == 0 && sessionGauge() == gauge0 {
				break
			}
			if time.Now().After(deadline) {
				if len(w.Panics()) > 0 {
					return "server code panicked: " + w.Panics()[0], false, answered
				}
				return fmt.Sprintf("after every client has gone: %v; %d session(s) still resolve", l, live), false, answered
			}
			time.Sleep(5 * time.Millisecond)
		}
		w.cancel()
		w.srv.Close()
		w.ln.Close()
		if p := w.Panics(); len(p) > 0 {
			return "server code panicked: " + p[0], false, answered
		}
	} else {
		// bare handlers: one RealtimeHandler + scheduler per client, shared store
		hw := NewHWorld(cfg)
		type bare struct {
			mu    sync.Mutex
			cond  *sync.Cond
			inbox []Rx
			rh    *hws.RealtimeHandler
			sched schedIface
		}
		clients := make([]*bare, c.Clients)
		var panics []string
		var pmu sync.Mutex
		for i := range clients {
			hw.Connect(i)
			b := &bare{rh: hw.conns[i].rh, sched: hw.conns[i].sched}
			b.cond = sync.NewCond(&b.mu)
			clients[i] = b
		}
		mk := func(b *bare) *rClient {
			responder := respFunc(func(msg hwebsocket.Msg) {
				rx, _ := decodeMsg(msg)
				b.mu.Lock()
				b.inbox = append(b.inbox, rx)
				b.cond.Broadcast()
				b.mu.Unlock()
			})
			return &rClient{
				send: func(p proto.Message) (err error) {
					defer func() {
						if r := recover(); r != nil {
							pmu.Lock()
							panics = append(panics, fmt.Sprint(r))
							pmu.Unlock()
							err = fmt.Errorf("panic: %v", r)
						}
					}()
					bts, _ := proto.Marshal(p)
					msg, ok := bytesToWire(bts)
					if !ok {
						return fmt.Errorf("bad frame")
					}
					if err := b.sched.Dispatch(context.Background(), msg); err != nil {
						return err
					}
					for {
						select {
						case m := <-b.sched.Messages():
							if err := hws.VerifHandleMessage(context.Background(), b.rh, b.sched, m, responder); err != nil {
								return err
							}
						default:
							return nil
						}
					}
				},
				waitFor: func(req uint32, types ...int32) (Rx, bool) {
					b.mu.Lock()
					defer b.mu.Unlock()
					for _, rx := range b.inbox {
						if rx.ReqID() == req {
							for _, t := range types {
								if rx.T == t {
									return rx, true
								}
							}
						}
					}
					return Rx{}, false
				},
			}
		}
		// sessions are created first
		for s := 0; s < c.Sessions; s++ {
			cl := mk(clients[s])
			cl.send(&hagallpb.ParticipantJoinRequest{Type: TJoinReq, Timestamp: nowTS(), RequestId: 1})
			rx, ok := cl.waitFor(1, TJoinResp)
			if !ok {
				return "session could not be created", false, 0
			}
			sids[s] = rx.M.(*hagallpb.ParticipantJoinResponse).SessionId
		}
		for i := range clients {
			cl := mk(clients[i])
			cl.id = i
			wg.Add(1)
			go func(i int) {
				defer wg.Done()
				rng := rand.New(rand.NewSource(c.Seed + int64(i)))
				sid := sids[i%c.Sessions]
				if i < c.Sessions {
					sid = sids[(i+1)%c.Sessions]
				}
				errs[i] = cl.opMix(rng, c.Ops, sid, &answered)
			}(i)
		}
		go func() { wg.Wait(); close(done) }()
		if v, inc := awaitClients(done, &answered); v != "" || inc {
			return v, inc, answered
		}
		for i := range clients {
			clients[i].rh.HandleDisconnect(nil)
		}
		for _, sid := range sids {
			if _, ok := hw.store.GetByGlobalID(sid); ok && c.Sessions > 0 {
				viol = fmt.Sprintf("session %q still resolves after every member has gone", sid)
			}
		}
		if g := sessionGauge() - gauge0; g != 0 && viol == "" {
			viol = fmt.Sprintf("session gauge is off by %v after every member has gone", g)
		}
		if len(panics) > 0 {
			return "server code panicked: " + panics[0], false, answered
		}
		if viol != "" {
			return viol, false, answered
		}
	}
	for i, e := range errs {
		if e != nil {
			return fmt.Sprintf("client %d: %v", i, e), false, answered
		}
	}
	return "", false, answered
}

// awaitClients waits for the clients to finish. The machine may be busy, so slowness is
// inconclusive (120 s watchdog); but if not a single request is answered for 45 s while clients
// are still at work, the requests block one another (C09: "never block one another forever").
func awaitClients(done chan struct{}, answered *int64) (viol string, inconclusive bool) {
	start, lastChange, last := time.Now(), time.Now(), atomic.LoadInt64(answered)
	tick := time.NewTicker(500 * time.Millisecond)
	defer tick.Stop()
	for {
		select {
		case <-done:
			return "", false
		case <-tick.C:
			if n := atomic.LoadInt64(answered); n != last {
				last, lastChange = n, time.Now()
			}
			if time.Since(lastChange) > 45*time.Second {
				return fmt.Sprintf("no request has been answered for 45 s (%d answered before) while clients are still waiting: requests block one another", last), false
			}
			if time.Since(start) > 120*time.Second {
				return "", true
			}
		}
	}
}

type respFunc func(hwebsocket.Msg)

func (f respFunc) Send(p hwebsocket.ProtoMsg) {
	if m, err := hwebsocket.MsgFromProto(p); err == nil {
		f(m)
	}
}
func (f respFunc) SendMsg(m hwebsocket.Msg) { f(m) }

// waitInbox blocks until the connection has received an answer to req.
func waitInbox(c *wConn, req uint32, timeout time.Duration, types ...int32) (Rx, bool) {
	timer := time.AfterFunc(timeout, func() {
		c.mu.Lock()
		c.cond.Broadcast()
		c.mu.Unlock()
	})
	defer timer.Stop()
	deadline := time.Now().Add(timeout)
	c.mu.Lock()
	defer c.mu.Unlock()
	scanned := 0
	for {
		for ; scanned < len(c.inbox); scanned++ {
			rx := c.inbox[scanned]
			if rx.ReqID() == req {
				for _, t := range types {
					if rx.T == t {
						return rx, true
					}
				}
			}
		}
		if c.readerGone || time.Now().After(deadline) {
			return Rx{}, false
		}
		c.cond.Wait()
	}
}

func TestC09Race(t *testing.T) {
	col := NewCollector("C09", "R", "real goroutines, real time, binary built with -race: 2-16 clients in 1-2 shared sessions, all modules, 30-200 requests each from a seeded mix of all request kinds (entity add/delete/pose, custom, component add/update/delete/list, subscribe/unsubscribe, entity action, asset add, ground-plane sample/ray/region/debug, ping), the session creators switching sessions first; wire variant = websocket.Handle with HandlerWithLogs (3 ms summaries) + HandlerWithMetrics over net.Pipe with clients that keep reading, bare variant = handlers called directly; oracles: Go race detector (any report fails the test), every request answered, every client finishes (no request answered for 45 s while clients wait = requests block one another; otherwise a 120 s watchdog is inconclusive), no panic, nothing left behind; non-trivial = distinct execution in which >=2 clients issued >=20 answered requests each")
	t.Cleanup(col.Write)
	if rp := os.Getenv("VERIF_REPLAY"); rp != "" {
		var c rCase
		if err := readJSON(rp, &c); err != nil || c.Clients == 0 {
			t.Skipf("replay file not usable: %v", err)
		}
		for i := 0; i < 5; i++ {
			if v, _, _ := runReal(c); v != "" {
				t.Fatalf("replay violates C09: %s", v)
			}
		}
		return
	}
	cases, inconclusiveCases := 0, 0
	defer func() {
		if cases >= 4 && inconclusiveCases*2 > cases && !t.Failed() {
			t.Fatalf("no verdict: %d of %d executions hit the watchdog", inconclusiveCases, cases)
		}
	}()
	rapid.Check(t, func(rt *rapid.T) {
		c := rCase{Clients: 2 + uni(rt, "clients", 15), Sessions: 1 + uni(rt, "sessions", 2), Ops: 30 + uni(rt, "ops", 171), Seed: int64(uni(rt, "seed", 1<<15)), Wire: uni(rt, "wire", 2) == 0}
		if c.Sessions > c.Clients {
			c.Sessions = c.Clients
		}
		v, inconclusive, answered := runReal(c)
		variant := "bare"
		if c.Wire {
			variant = "wire"
		}
		col.Case(fmt.Sprintf("%+v", c), v == "" && !inconclusive && answered >= int64(40), map[string]int{"variant_" + variant: 1, "inconclusive": b2i(inconclusive)}, func() any { return c })
		cases++
		if inconclusive {
			inconclusiveCases++
		}
		if v != "" {
			col.Violations++
			saveCase("C09", c)
			rt.Fatalf("C09 violated: %s (case %+v)", v, c)
		}
	})
}

func b2i(b bool) int {
	if b {
		return 1
	}
	return 0
}

package props

import (
	"runtime/debug"
	"fmt"
	"math"
	"math/big"
	"os"
	"sort"
	"testing"
	"testing/synctest"

	"github.com/aukilabs/hagall-common/messages/dagazpb"
	"github.com/aukilabs/hagall-common/messages/hagallpb"
	"github.com/aukilabs/hagall/modules/dagaz"
	"google.golang.org/protobuf/types/known/timestamppb"
	"pgregory.net/rapid"
)

// ---------------------------------------------------------------------------
// C20 (a): the ground-plane index is complete - checked through exported
// fields and methods of RegularGrid after every insertion.

type quadIn struct {
	C [3]float32 `json:"c"`
	E [3]float32 `json:"e"`
}

func (q quadIn) proto() *dagazpb.Quad {
	return &dagazpb.Quad{Center: &dagazpb.Point{X: q.C[0], Y: q.C[1], Z: q.C[2]}, Extents: &dagazpb.Point{X: q.E[0], Y: q.E[1], Z: q.E[2]}}
}

func xyz(v dagaz.Vector3f) (float64, float64, float64) {
	x, y, z := v.VerifXYZ()
	return float64(x), float64(y), float64(z)
}

// nearBoundaryInexact: an edge that lies within float32 rounding of a cell
// boundary (an even integer for resolution 2) without being exactly on it.
func nearBoundaryInexact(v float64) bool {
	r := math.Mod(math.Abs(v), 2)
	d := math.Min(r, 2-r)
	return d != 0 && d < 1e-4
}

func gridInvariants(g *dagaz.RegularGrid) string {
	rows := len(g.Grid)
	if rows == 0 {
		return "grid has no rows"
	}
	cols := len(g.Grid[0])
	for i, r := range g.Grid {
		if len(r) != cols {
			return fmt.Sprintf("grid is not rectangular: row 0 has %d cells, row %d has %d", cols, i, len(r))
		}
	}
	res := float64(g.Resolution)
	minx, _, minz := xyz(g.Min)
	maxx, _, maxz := xyz(g.Max)
	if minx+float64(cols)*res != maxx || minz+float64(rows)*res != maxz {
		return fmt.Sprintf("bounds inconsistent: min=(%v,%v) max=(%v,%v) with %dx%d cells of %v", minx, minz, maxx, maxz, cols, rows, res)
	}
	planes := map[*dagaz.Quad]bool{}
	for _, r := range g.Grid {
		for _, cell := range r {
			for _, q := range cell {
				planes[q] = true
			}
		}
	}
	if int(g.PlaneCount) != len(planes) {
		return fmt.Sprintf("PlaneCount=%d but %d distinct planes are stored", g.PlaneCount, len(planes))
	}
	for q := range planes {
		cx, cy, cz := xyz(q.Center)
		ex, _, ez := xyz(q.Extents)
		x0, x1, z0, z1 := cx-ex, cx+ex, cz-ez, cz+ez
		const eps = 1e-3 // float32 rounding of centre +- extents
		if x0 < minx-eps || x1 > maxx+eps || z0 < minz-eps || z1 > maxz+eps {
			return fmt.Sprintf("plane centre=(%v,%v,%v) extents=(%v,%v) sticks out of the grid bounds (%v,%v)-(%v,%v)", cx, cy, cz, ex, ez, minx, minz, maxx, maxz)
		}
		for i := 0; i < rows; i++ {
			for j := 0; j < cols; j++ {
				ox := math.Min(x1, minx+float64(j+1)*res) - math.Max(x0, minx+float64(j)*res)
				oz := math.Min(z1, minz+float64(i+1)*res) - math.Max(z0, minz+float64(i)*res)
				if ox > 1e-3 && oz > 1e-3 {
					found := false
					for _, p := range g.Grid[i][j] {
						if p == q {
							found = true
						}
					}
					if !found {
						return fmt.Sprintf("plane centre=(%v,%v,%v) extents=(%v,%v) overlaps cell [row %d, col %d] by %.4g x %.4g but is not registered there", cx, cy, cz, ex, ez, i, j, ox, oz)
					}
				}
			}
		}
		// a vertical ray through the centre of a stored plane hits a plane
		c32x, c32y, c32z := q.Center.VerifXYZ()
		ray := dagaz.Ray{From: dagaz.NewVector3f(c32x, c32y+1, c32z), To: dagaz.NewVector3f(c32x, c32y-1, c32z)}
		if hit, _ := g.IntersectQuad(ray); hit == nil {
			return fmt.Sprintf("a vertical ray through the centre (%v,%v,%v) of a stored plane hits nothing", cx, cy, cz)
		}
	}
	seen := map[*dagaz.Quad]int{}
	for _, q := range g.GetRegion(g.Min, g.Max) {
		seen[q]++
	}
	for q := range planes {
		if seen[q] != 1 {
			cx, cy, cz := xyz(q.Center)
			return fmt.Sprintf("a region query covering the grid returns the plane at (%v,%v,%v) %d times", cx, cy, cz, seen[q])
		}
	}
	if len(seen) != len(planes) {
		return fmt.Sprintf("a region query covering the grid returns %d planes, %d are stored", len(seen), len(planes))
	}
	return ""
}

func genQuads(t *rapid.T) []quadIn {
	n := 1 + uni(t, "nquads", 40)
	levels := []float32{0, 0.1, 0.5, 0.55, 1.2, 3, -2}
	var anchors [][2]float32
	var out []quadIn
	for i := 0; i < n; i++ {
		var q quadIn
		q.C[1] = pick(t, "level", levels) + float32(uni(t, "dy", 41)-20)/100
		if len(anchors) > 0 && uni(t, "near", 3) != 0 {
			a := anchors[uni(t, "anchor", len(anchors))]
			q.C[0] = a[0] + float32(uni(t, "dx", 801)-400)/100
			q.C[2] = a[1] + float32(uni(t, "dz", 801)-400)/100
		} else {
			q.C[0] = float32(uni(t, "cx", 12801)-6400) / 100
			q.C[2] = float32(uni(t, "cz", 12801)-6400) / 100
		}
		switch uni(t, "ext_kind", 4) {
		case 0:
			q.E[0], q.E[2] = float32(1+uni(t, "ex", 6400))/100, float32(1+uni(t, "ez", 6400))/100
		case 1:
			q.E[0], q.E[2] = float32(1+uni(t, "ex", 300))/100, float32(1+uni(t, "ez", 300))/100
		case 2:
			q.E[0], q.E[2] = float32(1+uni(t, "ex", 8)), float32(1+uni(t, "ez", 8))
		default:
			q.E[0] = math.Float32frombits(math.Float32bits(float32(1+uni(t, "ex", 1000))/100) + uint32(uni(t, "ulp", 5)))
			q.E[2] = float32(1+uni(t, "ez", 1000)) / 100
		}
		// one quad in four has an edge on (or a few float32 steps off) a cell boundary: the cell an
		// edge falls into must not depend on where the grid's origin is when it is computed
		if uni(t, "edge_on_boundary", 4) == 0 {
			k := []int{0, 2}[uni(t, "edge_axis", 2)]
			b := float32(2 * (uni(t, "boundary", 61) - 30))
			for j, n := 0, uni(t, "ulps", 5)-2; j != n; {
				if n > 0 {
					b = math.Nextafter32(b, 1e9)
					j++
				} else {
					b = math.Nextafter32(b, -1e9)
					j--
				}
			}
			if uni(t, "edge_side", 2) == 0 {
				q.C[k] = b - q.E[k]
			} else {
				q.C[k] = b + q.E[k]
			}
		}
		// one quad in six shares an edge (and the level) with an earlier quad but has another extent:
		// the two merge, and the averaged footprint's edge is the same number only up to rounding -
		// it must still fall inside the grid and into the cells it is registered in
		if len(out) > 0 && uni(t, "shared_edge", 6) == 0 {
			o := out[uni(t, "shared_with", len(out))]
			k := []int{0, 2}[uni(t, "shared_axis", 2)]
			q.C[1] = o.C[1]
			q.C[0], q.C[2] = o.C[0], o.C[2] // the vertical probe at the new centre must hit the earlier plane
			if uni(t, "shared_side", 2) == 0 {
				edge := o.C[k] - o.E[k]
				q.C[k] = edge + q.E[k]
			} else {
				edge := o.C[k] + o.E[k]
				q.C[k] = edge - q.E[k]
			}
		}
		for _, k := range []int{0, 2} {
			if q.C[k] > 64 {
				q.C[k] = 64
			}
			if q.C[k] < -64 {
				q.C[k] = -64
			}
		}
		anchors = append(anchors, [2]float32{q.C[0], q.C[2]})
		out = append(out, q)
	}
	return out
}

type gridRun struct {
	merges, growLeft, growUp int
	excluded                 int
}

// runGrid inserts the quads one by one, checking the invariants after each.
// When the float32-rounding finding is listed as known, quads with an edge
// inexactly near a cell boundary are left out (and counted).
func runGrid(qs []quadIn, excludeNearBoundary bool) (viol string, gr gridRun) {
	g := dagaz.NewRegularGrid(1, 1, 2)
	for i, qi := range qs {
		if excludeNearBoundary {
			skip := false
			for _, k := range []int{0, 2} {
				if nearBoundaryInexact(float64(qi.C[k])-float64(qi.E[k])) || nearBoundaryInexact(float64(qi.C[k])+float64(qi.E[k])) ||
					nearBoundaryInexact(float64(qi.C[k]-qi.E[k])) || nearBoundaryInexact(float64(qi.C[k]+qi.E[k])) {
					skip = true
				}
			}
			if skip {
				gr.excluded++
				continue
			}
		}
		minx0, _, minz0 := xyz(g.Min)
		m0 := g.MergeCount
		if pv := func() (pv string) {
			defer func() {
				if r := recover(); r != nil {
					pv = fmt.Sprintf("%v\n%s", r, firstFrames(debug.Stack()))
				}
			}()
			g.InsertQuad(dagaz.NewQuadFromProtobuf(qi.proto()))
			return ""
		}(); pv != "" {
			return fmt.Sprintf("inserting quad %d of %d panicked: %s", i+1, len(qs), pv), gr
		}
		minx1, _, minz1 := xyz(g.Min)
		if g.MergeCount > m0 {
			gr.merges += int(g.MergeCount - m0)
		}
		if minx1 < minx0 {
			gr.growLeft++
		}
		if minz1 < minz0 {
			gr.growUp++
		}
		if v := gridInvariants(g); v != "" {
			return fmt.Sprintf("after inserting quad %d of %d: %s", i+1, len(qs), v), gr
		}
	}
	return "", gr
}

func TestC20Grid(t *testing.T) {
	col := NewCollector("C20", "grid", "sequences of 1-40 horizontal quads inserted into NewRegularGrid(1,1,2): centres in [-64,64] (two decimals), clustered around earlier centres and on 7 height levels +-0.2 to force merges and merge chains, half-extents (0,64] in four size classes incl. integers and values a few ulps apart; after every insertion, through exported fields/methods only: grid rectangular with min+cells*resolution==max, every stored plane registered in every cell it overlaps by >1e-3, PlaneCount == number of distinct stored planes, a covering region query returns each exactly once, a vertical ray through each centre hits a plane, bounds contain every footprint; non-trivial = distinct sequence with >=1 merge and growth of the grid to the left or upwards")
	t.Cleanup(col.Write)
	exclude := isKnown("grid-cell-lost-near-boundary-rounding") && os.Getenv("VERIF_NO_EXCLUSIONS") == ""
	if rp := os.Getenv("VERIF_REPLAY"); rp != "" {
		var qs []quadIn
		if err := readJSON(rp, &qs); err != nil || len(qs) == 0 {
			t.Skipf("replay file not usable: %v", err)
		}
		if v, _ := runGrid(qs, exclude); v != "" {
			t.Fatalf("replay violates C20: %s", v)
		}
		return
	}
	rapid.Check(t, func(rt *rapid.T) {
		qs := genQuads(rt)
		if curFile != "" { // lets the driver re-run this sequence alone if an insertion or query never returns
			writeJSON(curFile, qs)
		}
		v, gr := runGrid(qs, exclude)
		col.Excluded += gr.excluded
		labels := map[string]int{"merge": gr.merges, "grow_left": gr.growLeft, "grow_up": gr.growUp}
		col.Case(fmt.Sprint(qs), v == "" && gr.merges > 0 && (gr.growLeft > 0 || gr.growUp > 0), labels, func() any { return qs })
		if v != "" {
			col.Violations++
			saveCase("C20", qs)
			rt.Fatalf("C20 violated: %s\nquads: %+v", v, qs)
		}
	})
}

// ---------------------------------------------------------------------------
// C20 (c): geometric primitives against exact rational arithmetic.

func rat(f float32) *big.Rat { return new(big.Rat).SetFloat64(float64(f)) }

func ratDot(a, b [3]float32) *big.Rat {
	s := new(big.Rat)
	for i := 0; i < 3; i++ {
		s.Add(s, new(big.Rat).Mul(rat(a[i]), rat(b[i])))
	}
	return s
}

func absSumDot(a, b [3]float32) float64 {
	s := 0.0
	for i := 0; i < 3; i++ {
		s += math.Abs(float64(a[i]) * float64(b[i]))
	}
	return s
}

func f64(r *big.Rat) float64 { f, _ := r.Float64(); return f }

func vec(a [3]float32) dagaz.Vector3f { return dagaz.NewVector3f(a[0], a[1], a[2]) }

func genVec(t *rapid.T, label string, scale int) [3]float32 {
	var v [3]float32
	for i := range v {
		switch uni(t, label+"_k", 4) {
		case 0:
			v[i] = float32(uni(t, label, 2*scale*100+1)-scale*100) / 100
		case 1:
			v[i] = float32(uni(t, label, 2*scale+1) - scale)
		case 2:
			v[i] = math.Float32frombits(uint32(uni(t, label+"_hi", 1<<15))<<16 | uint32(uni(t, label+"_lo", 1<<16))) // arbitrary bits
			if v[i] != v[i] || math.IsInf(float64(v[i]), 0) || math.Abs(float64(v[i])) > 1e15 {
				v[i] = 0.5
			}
		default:
			v[i] = 0
		}
	}
	return v
}

// genBounded draws a point with coordinates bounded by 64 m (quads and rays).
func genBounded(t *rapid.T, label string) [3]float32 {
	var v [3]float32
	for i := range v {
		switch uni(t, label+"_k", 3) {
		case 0:
			v[i] = float32(uni(t, label, 12801)-6400) / 100
		case 1:
			v[i] = float32(uni(t, label, 129) - 64)
		default:
			v[i] = 0
		}
	}
	return v
}

func TestC20Primitives(t *testing.T) {
	col := NewCollector("C20", "prim", "finite vectors, quads and rays (two-decimal values, integers, arbitrary float32 bit patterns up to 1e15, zeros; axis-aligned and oblique): Dot, Cross, the quad normal, the horizontal overlap test and the ray/quad intersection are compared with the same formulas evaluated in exact rational arithmetic (math/big.Rat) on the same float32 inputs; tolerance proportional to the sum of the absolute terms times 2^-20, decisions asserted only when the exact value is farther than the tolerance from the decision boundary; non-trivial = distinct input that is not axis-aligned")
	t.Cleanup(col.Write)
	rapid.Check(t, func(rt *rapid.T) {
		a, b := genVec(rt, "a", 64), genVec(rt, "b", 64)
		oblique := 0
		for i := 0; i < 3; i++ {
			if a[i] != 0 {
				oblique++
			}
		}
		labels := map[string]int{}
		fail := func(f string, x ...any) {
			col.Violations++
			saveCase("C20", map[string]any{"a": a, "b": b})
			rt.Fatalf("C20 violated: "+f, x...)
		}
		// Dot
		va := vec(a)
		got := float64(va.Dot(vec(b)))
		want := f64(ratDot(a, b))
		if tol := absSumDot(a, b)*math.Pow(2, -20) + 1e-30; math.Abs(got-want) > tol {
			fail("Dot(%v,%v)=%v, exact %v (tolerance %v)", a, b, got, want, tol)
		}
		// Cross
		cx, cy, cz := dagaz.Cross(vec(a), vec(b)).VerifXYZ()
		gotc := [3]float64{float64(cx), float64(cy), float64(cz)}
		for i := 0; i < 3; i++ {
			j, k := (i+1)%3, (i+2)%3
			w := new(big.Rat).Sub(new(big.Rat).Mul(rat(a[j]), rat(b[k])), new(big.Rat).Mul(rat(a[k]), rat(b[j])))
			tol := (math.Abs(float64(a[j])*float64(b[k]))+math.Abs(float64(a[k])*float64(b[j])))*math.Pow(2, -20) + 1e-30
			if math.Abs(gotc[i]-f64(w)) > tol {
				fail("Cross(%v,%v)[%d]=%v, exact %v", a, b, i, gotc[i], f64(w))
			}
		}
		// overlap test for horizontal planes: strict overlap on x and z
		qa := quadIn{C: genBounded(rt, "qc"), E: [3]float32{float32(1+uni(rt, "qex", 6400)) / 100, 0, float32(1+uni(rt, "qez", 6400)) / 100}}
		qb := quadIn{C: genBounded(rt, "rc"), E: [3]float32{float32(1+uni(rt, "rex", 6400)) / 100, 0, float32(1+uni(rt, "rez", 6400)) / 100}}
		if uni(rt, "touching", 4) == 0 { // edges that touch exactly
			qb.C[0] = qa.C[0] + qa.E[0] + qb.E[0]
		}
		gotOv := dagaz.VerifDoHorizontalPlanesOverlap(dagaz.NewQuadFromProtobuf(qa.proto()), dagaz.NewQuadFromProtobuf(qb.proto()))
		margin := math.Inf(1)
		wantOv := true
		for _, k := range []int{0, 2} {
			lo := math.Max(float64(qa.C[k])-float64(qa.E[k]), float64(qb.C[k])-float64(qb.E[k]))
			hi := math.Min(float64(qa.C[k])+float64(qa.E[k]), float64(qb.C[k])+float64(qb.E[k]))
			if hi-lo <= 0 {
				wantOv = false
			}
			margin = math.Min(margin, math.Abs(hi-lo))
		}
		scale := math.Abs(float64(qa.C[0])) + math.Abs(float64(qb.C[0])) + math.Abs(float64(qa.C[2])) + math.Abs(float64(qb.C[2])) + 200
		if margin > scale*math.Pow(2, -20) {
			labels["overlap_decided"] = 1
			if gotOv != wantOv {
				fail("overlap test says %v for %+v and %+v, exact arithmetic says %v", gotOv, qa, qb, wantOv)
			}
		}
		// normal of a horizontal quad with positive extents is +y
		nx, ny, nz := dagaz.VerifCalculateNormal(vec(qa.C), vec(qa.E)).VerifXYZ()
		if math.Abs(float64(nx)) > 1e-6 || math.Abs(float64(nz)) > 1e-6 || math.Abs(float64(ny)-1) > 1e-6 {
			fail("normal of the horizontal quad %+v is (%v,%v,%v), expected (0,1,0)", qa, nx, ny, nz)
		}
		// ray / quad intersection against the exact plane equation
		from, to := genBounded(rt, "from"), genBounded(rt, "to")
		if uni(rt, "short_probe", 4) == 0 { // a very short vertical probe through the quad
			d := pick(rt, "probe", []float32{1.0 / 65536, 1.0 / 32768, 1.0 / 16384, 1.0 / 4096, 1.0 / 256})
			from = [3]float32{qa.C[0] + float32(uni(rt, "ox", 101)-50)/100*qa.E[0], qa.C[1] + d, qa.C[2] + float32(uni(rt, "oz", 101)-50)/100*qa.E[2]}
			to = [3]float32{from[0], qa.C[1] - d, from[2]}
			labels["short_probe"] = 1
		} else if uni(rt, "through", 2) == 0 { // aim through the quad
			from = [3]float32{qa.C[0] + float32(uni(rt, "ox", 201)-100)/100*qa.E[0], qa.C[1] + float32(1+uni(rt, "up", 300))/100, qa.C[2] + float32(uni(rt, "oz", 201)-100)/100*qa.E[2]}
			to = [3]float32{from[0] + float32(uni(rt, "sx", 201)-100)/100, qa.C[1] - float32(1+uni(rt, "down", 300))/100, from[2] + float32(uni(rt, "sz", 201)-100)/100}
		}
		q := dagaz.NewQuadFromProtobuf(qa.proto())
		hit, tt := dagaz.IntersectQuad(dagaz.Ray{From: vec(from), To: vec(to)}, q)
		// exact: plane y = cy; t = (cy - from.y)/(to.y-from.y)
		dy := new(big.Rat).Sub(rat(to[1]), rat(from[1]))
		if dy.Sign() != 0 {
			texact := new(big.Rat).Quo(new(big.Rat).Sub(rat(qa.C[1]), rat(from[1])), dy)
			te := f64(texact)
			hx := float64(from[0]) + te*(float64(to[0])-float64(from[0]))
			hz := float64(from[2]) + te*(float64(to[2])-float64(from[2]))
			mx := float64(qa.E[0]) - math.Abs(hx-float64(qa.C[0]))
			mz := float64(qa.E[2]) - math.Abs(hz-float64(qa.C[2]))
			sc := (math.Abs(float64(from[0])) + math.Abs(float64(to[0])) + math.Abs(float64(from[2])) + math.Abs(float64(to[2])) + math.Abs(float64(qa.C[0])) + math.Abs(float64(qa.C[2])) + 100) * (1 + math.Abs(te))
			tol := sc*math.Pow(2, -18) + 2e-4 // the code itself accepts hits within 1e-4 of the border
			ttol := (1 + math.Abs(te)) * math.Pow(2, -16)
			inT := te > ttol && te < 1-ttol
			outT := te < -ttol || te > 1+ttol
			switch {
			case inT && mx > tol && mz > tol:
				labels["ray_hit_decided"] = 1
				if !hit {
					fail("ray %v->%v misses the quad %+v; exactly it hits at t=%v, (%v,%v) inside by (%v,%v)", from, to, qa, te, hx, hz, mx, mz)
				} else if math.Abs(float64(tt)-te) > ttol {
					fail("ray %v->%v hits the quad %+v at t=%v, exact t=%v", from, to, qa, tt, te)
				}
			case outT || mx < -tol || mz < -tol:
				labels["ray_miss_decided"] = 1
				if hit {
					fail("ray %v->%v is reported to hit the quad %+v at t=%v; exactly t=%v, point (%v,%v) is outside by (%v,%v)", from, to, qa, tt, te, hx, hz, -mx, -mz)
				}
			}
		}
		col.Case(fmt.Sprint(a, b, qa, qb, from, to), oblique >= 2, labels, func() any {
			return map[string]any{"a": a, "b": b, "quad_a": qa, "quad_b": qb, "ray_from": from, "ray_to": to}
		})
	})
}

// ---------------------------------------------------------------------------
// C20 (b): samples are shared by the members of a session and kept while it
// lives, whoever joins or leaves. Differential against a local grid fed with
// the same samples.

type sharedCase struct {
	Quads []quadIn `json:"quads"`
	Ops   []int    `json:"ops"` // per quad: what happens before it (0 nothing, 1 a member joins, 2 a non-sampling member leaves, 3 sampler changes)
	Who   []int    `json:"who"` // which member (index among the candidates)
	Two   bool     `json:"two_sessions,omitempty"` // a second session exists; op 4 moves a member between the two
}

func runShared(t *testing.T, c sharedCase) (viol string) {
	synctest.Test(t, func(t *testing.T) {
		cfg := Config{Modules: []string{"dagaz"}, FrameMs: 15, Conns: 10}
		w := NewHWorld(cfg)
		defer w.Shutdown()
		ts := &timestamppb.Timestamp{Seconds: 1700000000}
		// two sessions, each with its own reference grid; members may move between them
		ref := []*dagaz.RegularGrid{dagaz.NewRegularGrid(1, 1, 2), dagaz.NewRegularGrid(1, 1, 2)}
		req := uint32(10)
		join := func(slot int, sid string) string {
			if w.RH(slot) == nil {
				w.Connect(slot)
			}
			req++
			w.Send(slot, &hagallpb.ParticipantJoinRequest{Type: TJoinReq, Timestamp: ts, RequestId: req, SessionId: sid})
			for _, rx := range w.Inbox(slot) {
				if jr, ok := rx.M.(*hagallpb.ParticipantJoinResponse); ok && jr.RequestId == req {
					return jr.SessionId
				}
			}
			return ""
		}
		sids := []string{join(0, ""), ""}
		join(1, sids[0])
		members := [][]int{{0, 1}, {}}
		sampler, samplerSess := 0, 0
		next := 2
		if c.Two {
			sids[1] = join(2, "")
			join(3, sids[1])
			members[1] = []int{2, 3}
			next = 4
		}
		check := func(stage string) bool {
			for k := range members {
				if len(members[k]) == 0 {
					continue
				}
				observer := members[k][len(members[k])-1]
				n := len(w.Inbox(observer))
				req++
				w.Send(observer, &dagazpb.DagazGetDebugInfoRequest{Type: TDebugReq, Timestamp: ts, RequestId: req})
				req++
				w.Send(observer, &dagazpb.DagazGetRegionRequest{Type: TRegionReq, Timestamp: ts, RequestId: req, Min: &dagazpb.Point{X: -1000, Z: -1000}, Max: &dagazpb.Point{X: 1000, Z: 1000}})
				var planes, quads = -1, -1
				var got []string
				for _, rx := range w.Inbox(observer)[n:] {
					switch m := rx.M.(type) {
					case *dagazpb.DagazGetDebugInfoResponse:
						planes = int(m.GridPlaneCount)
					case *dagazpb.DagazGetRegionResponse:
						quads = len(m.Quads)
						for _, q := range m.Quads {
							got = append(got, fmt.Sprintf("%v/%v/%d", q.Center, q.Extents, q.MergeCount))
						}
					}
				}
				var want []string
				for _, q := range ref[k].GetRegion(dagaz.NewVector3f(-1000, 0, -1000), dagaz.NewVector3f(1000, 0, 1000)) {
					want = append(want, fmt.Sprintf("%v/%v/%d", q.Center.ToProtobuf(), q.Extents.ToProtobuf(), q.MergeCount))
				}
				sort.Strings(got)
				sort.Strings(want)
				// a vertical ray through the centre of a stored plane hits a plane (asked through the handler)
				for pi, q := range ref[k].GetRegion(dagaz.NewVector3f(-1000, 0, -1000), dagaz.NewVector3f(1000, 0, 1000)) {
					if pi >= 3 {
						break
					}
					c := q.Center.ToProtobuf()
					req++
					n0 := len(w.Inbox(observer))
					w.Send(observer, &dagazpb.DagazGetGroundPlaneRequest{Type: TGroundReq, Timestamp: ts, RequestId: req, Ray: &dagazpb.Ray{From: &dagazpb.Point{X: c.X, Y: c.Y + 1, Z: c.Z}, To: &dagazpb.Point{X: c.X, Y: c.Y - 1, Z: c.Z}}})
					hit := false
					for _, rx := range w.Inbox(observer)[n0:] {
						if m, ok := rx.M.(*dagazpb.DagazGetGroundPlaneResponse); ok && m.Ground != nil && m.Ground.Extents != nil && (m.Ground.Extents.X != 0 || m.Ground.Extents.Z != 0) {
							hit = true
						}
					}
					if !hit && viol == "" {
						viol = fmt.Sprintf("%s: a vertical ray through the centre (%v,%v,%v) of a plane stored in session %d is answered with no ground plane", stage, c.X, c.Y, c.Z, k+1)
						return false
					}
				}
				if planes != int(ref[k].PlaneCount) || quads != len(want) || fmt.Sprint(got) != fmt.Sprint(want) {
					viol = fmt.Sprintf("%s: a member of session %d (connection %d) sees %d planes (region query: %d quads), the samples sent to that session so far make %d planes (%d quads)", stage, k+1, observer, planes, quads, ref[k].PlaneCount, len(want))
					return false
				}
			}
			return true
		}
		for i, q := range c.Quads {
			who := c.Who[i%len(c.Who)]
			switch c.Ops[i%len(c.Ops)] {
			case 1:
				k := 0
				if c.Two {
					k = who % 2
				}
				if len(members[k]) < 5 && next < 10 {
					join(next, sids[k])
					members[k] = append(members[k], next)
					next++
					if !check(fmt.Sprintf("after a member joined (before sample %d)", i+1)) {
						return
					}
				}
			case 2:
				k := 0
				if c.Two {
					k = who % 2
				}
				if len(members[k]) > 2 {
					// any member but the current sampler may leave, the session's creator included
					idx := (who / 2) % len(members[k])
					if members[k][idx] == sampler {
						idx = (idx + 1) % len(members[k])
					}
					w.Close(members[k][idx])
					members[k] = append(members[k][:idx], members[k][idx+1:]...)
					if !check(fmt.Sprintf("after a member left (before sample %d)", i+1)) {
						return
					}
				}
			case 3:
				k := samplerSess
				if c.Two && who%2 == 1 {
					k = 1 - k
				}
				sampler, samplerSess = members[k][(i+1+who/2)%len(members[k])], k
			case 4:
				// a member (possibly the sampler, possibly the last observer) moves to the other session
				if c.Two {
					k := who % 2
					if len(members[k]) > 1 {
						idx := (who / 2) % len(members[k])
						slot := members[k][idx]
						if join(slot, sids[1-k]) != sids[1-k] {
							viol = fmt.Sprintf("connection %d could not move to the other session", slot)
							return
						}
						members[k] = append(members[k][:idx], members[k][idx+1:]...)
						members[1-k] = append(members[1-k], slot)
						if slot == sampler {
							samplerSess = 1 - k
						}
						if !check(fmt.Sprintf("after connection %d moved from session %d to session %d (before sample %d)", slot, k+1, 2-k, i+1)) {
							return
						}
					}
				}
			}
			// the same vertical ray - through the coming sample's centre - is asked by a member of each
			// session before and after the sample; each answer (hit or miss) must be the one a local
			// grid fed with the same samples gives: every member sees every other member's samples
			rayAt := func(stage string) bool {
				pr := &dagazpb.Ray{From: &dagazpb.Point{X: q.C[0], Y: q.C[1] + 1, Z: q.C[2]}, To: &dagazpb.Point{X: q.C[0], Y: q.C[1] - 1, Z: q.C[2]}}
				for k := range members {
					if len(members[k]) == 0 {
						continue
					}
					observer := members[k][len(members[k])-1]
					req++
					n0 := len(w.Inbox(observer))
					w.Send(observer, &dagazpb.DagazGetGroundPlaneRequest{Type: TGroundReq, Timestamp: ts, RequestId: req, Ray: pr})
					got, answered := false, false
					for _, rx := range w.Inbox(observer)[n0:] {
						if m, ok := rx.M.(*dagazpb.DagazGetGroundPlaneResponse); ok {
							answered = true
							got = m.Ground != nil && m.Ground.Extents != nil && (m.Ground.Extents.X != 0 || m.Ground.Extents.Z != 0)
						}
					}
					hit, _ := ref[k].IntersectQuad(dagaz.NewRayFromProtobuf(pr))
					if answered && got != (hit != nil) {
						viol = fmt.Sprintf("%s: connection %d (session %d) asks for the ground under (%v,%v) and gets hit=%v, a grid fed with the samples sent to that session so far gives hit=%v", stage, observer, k+1, q.C[0], q.C[2], got, hit != nil)
						return false
					}
				}
				return true
			}
			if !rayAt(fmt.Sprintf("before sample %d", i+1)) {
				return
			}
			samples := []*dagazpb.Quad{q.proto()}
			if (i+who)%3 == 0 {
				// a sample the server must ignore (far outside the supported range) travels in the same
				// message, before the real one: the real one must still be kept
				samples = []*dagazpb.Quad{{Center: &dagazpb.Point{X: 5e6, Y: 0, Z: -5e6}, Extents: &dagazpb.Point{X: 1, Y: 0, Z: 1}}, q.proto()}
			}
			w.Send(sampler, &dagazpb.DagazQuadSample{Type: TQuadSample, Timestamp: ts, Samples: samples})
			ref[samplerSess].InsertQuad(dagaz.NewQuadFromProtobuf(q.proto()))
			if len(w.Panics()) > 0 {
				viol = "server code panicked: " + w.Panics()[0]
				return
			}
			if !rayAt(fmt.Sprintf("after sample %d (sent by connection %d in session %d)", i+1, sampler, samplerSess+1)) {
				return
			}
			if !check(fmt.Sprintf("after sample %d (sent by connection %d in session %d)", i+1, sampler, samplerSess+1)) {
				return
			}
		}
	})
	return
}

func TestC20Shared(t *testing.T) {
	col := NewCollector("C20", "shared", "handler-level driver, dagaz loaded: 1-12 quad samples sent by changing members of one or two sessions while other members join, leave and move from one session to the other between samples; after every event a member of each session asks for the debug info and a region covering everything; oracle: one local RegularGrid per session fed with exactly the samples sent to that session (differential) - plane count and the multiset of returned quads must agree, i.e. the index is shared by all members of a session, private to it, and kept while the session lives; non-trivial = distinct case with >=1 join and >=1 departure between samples")
	t.Cleanup(col.Write)
	if rp := os.Getenv("VERIF_REPLAY"); rp != "" {
		var c sharedCase
		if err := readJSON(rp, &c); err != nil || len(c.Quads) == 0 || len(c.Ops) == 0 || len(c.Who) == 0 {
			t.Skipf("replay file not usable: %v", err)
		}
		if v := runShared(t, c); v != "" {
			t.Fatalf("replay violates C20: %s", v)
		}
		return
	}
	rapid.Check(t, func(rt *rapid.T) {
		qs := genQuads(rt)
		if len(qs) > 12 {
			qs = qs[:12]
		}
		c := sharedCase{Quads: qs, Two: uni(rt, "two_sessions", 3) != 0}
		joins, leaves, moves := 0, 0, 0
		for range qs {
			o := uni(rt, "op", 5)
			c.Ops = append(c.Ops, o)
			c.Who = append(c.Who, uni(rt, "who", 12))
			if o == 4 && c.Two {
				moves++
			}
			if o == 1 {
				joins++
			}
			if o == 2 {
				leaves++
			}
		}
		if curFile != "" { // lets the driver re-run this case alone if the process wedges
			writeJSON(curFile, c)
		}
		v := runShared(t, c)
		col.Case(fmt.Sprint(c), v == "" && joins > 0 && leaves > 0, map[string]int{"join_between_samples": joins, "leave_between_samples": leaves, "member_moved_to_the_other_session": moves, "two_sessions": b2i(c.Two)}, func() any { return c })
		if v != "" {
			col.Violations++
			saveCase("C20", c)
			rt.Fatalf("C20 violated: %s\ncase: %+v", v, c)
		}
	})
}

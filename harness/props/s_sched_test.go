//go:build verifsched

package props

import (
	"fmt"
	"os"
	"sort"
	"strings"
	"testing"

	"github.com/aukilabs/hagall-common/messages/hagallpb"
	"github.com/aukilabs/hagall-common/messages/odalpb"
	"github.com/aukilabs/hagall-common/messages/vikjapb"
	"github.com/aukilabs/hagall/models"
	"github.com/aukilabs/hagall/modules/odal"
	"github.com/aukilabs/hagall/modules/vikja"
	vsync "github.com/aukilabs/hagall/vsync"
	"google.golang.org/protobuf/proto"
	"google.golang.org/protobuf/types/known/timestamppb"
	"pgregory.net/rapid"
)

// ---------------------------------------------------------------------------
// Driver S: the handler-level driver, but the 2-3 requests of a concurrent
// block run as tasks of a cooperative scheduler. The "sync" import of
// models/*.go and modules/*/state.go is redirected (build overlay) to vsync,
// whose Mutex/RWMutex/Once yield to the scheduler before every acquisition:
// exactly one task runs at a time and the harness chooses who continues at
// every yield - every interleaving at lock granularity is reachable, and
// "nobody can continue" is an observable deadlock.

type BOp struct {
	Conn int    `json:"c"`
	Kind string `json:"k"` // join_existing join_new close entity_add entity_del custom type_add sub comp_add asset
	N    int    `json:"n,omitempty"`
}

type blockCase struct {
	Prefix  []Step `json:"prefix"`
	Conns   int    `json:"conns"`
	Block   []BOp  `json:"block"`
	Choices []int  `json:"choices"` // which enabled task continues at the i-th yield (mod the number enabled)
	// Frames: the prefix may leave pose / component updates pending in the senders' dispatchers; a
	// frame is dispatched just before the block and every connection handles what the frame released
	// as (the first part of) its task - concurrently with the other requests of the block
	Frames bool `json:"frames,omitempty"`
}

func (c blockCase) pretty() []string {
	out := []string{"prefix:"}
	for i, st := range c.Prefix {
		out = append(out, fmt.Sprintf("  %d: %s", i, st.String()))
	}
	out = append(out, "concurrent block:")
	for _, b := range c.Block {
		out = append(out, fmt.Sprintf("  c%d %s/%d", b.Conn, b.Kind, b.N))
	}
	out = append(out, fmt.Sprintf("schedule choices: %v", c.Choices))
	return out
}

type blockResult struct {
	viol       string
	tags       string
	more       [][2]string // further assertions (tags, message) that failed in the same block
	yields     int
	preempts   int
	deadlock   bool
	trace      []string
	enabledLog [][]int
}

func runBlock(c blockCase, policy func(y vsync.Yield, i int) int) (res blockResult) {
	cfg := Config{Modules: allModules, FrameMs: 3600000, Conns: c.Conns, ReceiptCap: 8}
	w := NewHWorld(cfg)
	w.NoBubble = true
	gauge0 := sessionGauge()
	ex := NewExec(w, cfg)
	ex.Ex = Exclusions{PendingAcrossJoin: true}
	for i, st := range c.Prefix {
		if st.Op == OpTick || st.Op == OpPingResp || st.Op == OpLatency || ((st.Op == OpPose || st.Op == OpCompUpdate) && !c.Frames) {
			continue // nothing time-dependent: the scheduled driver has no clock
		}
		ex.stepIdx = i
		ex.Step(st)
		if len(ex.Viol) > 0 {
			res.viol, res.tags, res.more = "", "", nil // the sequential checks decide sequential behaviour
			w.Shutdown()
			return
		}
	}
	// build the concrete requests of the block from the state after the prefix
	ts := &timestamppb.Timestamp{Seconds: 1800000000}
	type planned struct {
		slot  int
		bytes []byte
		close bool
		flush bool // no request of its own: the task handles what the frame released for this connection
		op    BOp
		req   uint32
	}
	var plan []planned
	used := map[int]bool{}
	for i, b := range c.Block {
		if used[b.Conn] {
			continue // one request per connection in a block
		}
		used[b.Conn] = true
		mc := ex.conn(b.Conn)
		req := uint32(900000 + i)
		var p proto.Message
		switch b.Kind {
		case "join_existing":
			if len(ex.M.Live) == 0 {
				continue
			}
			p = &hagallpb.ParticipantJoinRequest{Type: TJoinReq, Timestamp: ts, RequestId: req, SessionId: ex.M.Live[b.N%len(ex.M.Live)].ID}
		case "join_new":
			p = &hagallpb.ParticipantJoinRequest{Type: TJoinReq, Timestamp: ts, RequestId: req}
		case "join_predicted":
			// session ids are small consecutive numbers: a client can name the session another client
			// is creating at this very moment (no session has ended in these prefixes, so the next id
			// is the number of sessions created so far plus one)
			p = &hagallpb.ParticipantJoinRequest{Type: TJoinReq, Timestamp: ts, RequestId: req, SessionId: w.Store().GlobalSessionID(uint32(ex.M.sessSeq + 1))}
		case "close":
			plan = append(plan, planned{slot: b.Conn, close: true, op: b})
			continue
		case "entity_add":
			p = &hagallpb.EntityAddRequest{Type: TEntityAddReq, Timestamp: ts, RequestId: req, Persist: b.N%2 == 1, Pose: &hagallpb.Pose{Px: float32(i + 1)}}
		case "entity_del":
			if mc.Sess == nil {
				continue
			}
			own := mc.Sess.ownedBy(mc.Pid, nil)
			if len(own) == 0 {
				continue
			}
			p = &hagallpb.EntityDeleteRequest{Type: TEntityDelReq, Timestamp: ts, RequestId: req, EntityId: own[b.N%len(own)]}
		case "custom":
			p = &hagallpb.CustomMessage{Type: TCustom, Timestamp: ts, Body: []byte{0xB0, byte(i)}}
		case "type_add":
			p = &hagallpb.EntityComponentTypeAddRequest{Type: TTypeAddReq, Timestamp: ts, RequestId: req, EntityComponentTypeName: []string{"blk", "blk", "blk2"}[b.N%3]}
		case "sub":
			p = &hagallpb.EntityComponentTypeSubscribeRequest{Type: TSubReq, Timestamp: ts, RequestId: req, EntityComponentTypeId: uint32(1 + b.N%2)}
		case "comp_add":
			p = &hagallpb.EntityComponentAddRequest{Type: TCompAddReq, Timestamp: ts, RequestId: req, EntityComponentTypeId: uint32(1 + b.N%2), EntityId: uint32(1 + b.N%3), Data: []byte{byte(i)}}
		case "flush":
			plan = append(plan, planned{slot: b.Conn, flush: true, op: b})
			continue
		case "unsub":
			if mc.Sess == nil {
				continue
			}
			p = &hagallpb.EntityComponentTypeUnsubscribeRequest{Type: TUnsubReq, Timestamp: ts, RequestId: req, EntityComponentTypeId: 1}
		case "comp_add_on":
			if mc.Sess == nil {
				continue // a module or core request outside a session may legitimately be dropped
			}
			// a component of the first registered type on entity N (which another request of the block may be removing)
			p = &hagallpb.EntityComponentAddRequest{Type: TCompAddReq, Timestamp: ts, RequestId: req, EntityComponentTypeId: 1, EntityId: uint32(b.N), Data: []byte{byte(i)}}
		case "action_on":
			if mc.Sess == nil {
				continue
			}
			p = &vikjapb.EntityActionRequest{Type: TActionReq, Timestamp: ts, RequestId: req, EntityAction: &vikjapb.EntityAction{EntityId: uint32(b.N), Name: "blk", Timestamp: &timestamppb.Timestamp{Seconds: 1700000100 + int64(i)}, Data: []byte{byte(i)}}}
		case "asset":
			if mc.Sess == nil {
				continue
			}
			own := mc.Sess.ownedBy(mc.Pid, nil)
			if len(own) == 0 {
				continue
			}
			p = &odalpb.AssetInstanceAddRequest{Type: TAssetReq, Timestamp: ts, RequestId: req, EntityId: own[b.N%len(own)], AssetId: "blk"}
		default:
			continue
		}
		bts, _ := proto.Marshal(p)
		plan = append(plan, planned{slot: b.Conn, bytes: bts, op: b, req: req})
	}
	if len(plan) < 2 {
		w.Shutdown()
		return
	}
	// who is where before the block
	type member struct {
		sess *models.Session
		pid  uint32
	}
	before := map[int]member{}
	for slot, mc := range ex.M.Conns {
		if mc.joined() {
			rh := w.RH(slot)
			if rh != nil && rh.CurrentSession() != nil {
				before[slot] = member{rh.CurrentSession(), rh.CurrentParticipant().ID}
			}
		}
	}
	inboxBefore := map[int]int{}
	for slot := range ex.M.Conns {
		inboxBefore[slot] = len(w.Inbox(slot))
	}
	// pending updates before the frame (what the flush tasks are going to handle)
	type pend struct {
		slot int
		key  CompKey
		eid  uint32
		pose *[7]uint32
	}
	var pendingComp, pendingPose []pend
	if c.Frames {
		for slot, mc := range ex.M.Conns {
			if !mc.joined() {
				continue
			}
			for k := range mc.PendingComp {
				pendingComp = append(pendingComp, pend{slot: slot, key: k})
			}
			for eid, st := range mc.PendingPose {
				pendingPose = append(pendingPose, pend{slot: slot, eid: eid, pose: st.Pose})
			}
		}
		// the frame worker's tick: every member's dispatcher releases its coalesced updates
		for s := range w.sessions {
			models.VerifDispatchFrame(s)
		}
	}
	// run the block under the scheduler
	var fns []func()
	for _, pl := range plan {
		pl := pl
		fns = append(fns, func() {
			if c.Frames {
				if hc := w.conns[pl.slot]; hc != nil {
					w.drain(hc) // released updates come first, as in the connection's own loop
				}
			}
			if pl.flush {
				return
			}
			if pl.close {
				w.Close(pl.slot)
			} else {
				w.SendBytes(pl.slot, pl.bytes)
			}
		})
	}
	sched := &vsync.Sched{}
	yi := 0
	sched.Choose = func(y vsync.Yield) int {
		k := policy(y, yi)
		yi++
		return k
	}
	sched.Run(fns)
	res.yields = len(sched.Trace)
	for i, y := range sched.Trace {
		res.enabledLog = append(res.enabledLog, y.Enabled)
		if y.Running >= 0 && y.Task != y.Running {
			for _, e := range y.Enabled {
				if e == y.Running {
					res.preempts++
				}
			}
		}
		if i < 40 {
			res.trace = append(res.trace, fmt.Sprintf("task %d: %s (enabled %v)", y.Task, y.Op, y.Enabled))
		}
	}
	fail := func(tags, f string, a ...any) {
		if res.viol != "" {
			// keep the later assertions too: each is an observation of the real state and stands
			// on its own, and a property's check must not be blind to its own assertion because
			// one of another property fired first (they only exist once something is violated)
			res.more = append(res.more, [2]string{tags, fmt.Sprintf(f, a...)})
		}
		if res.viol == "" {
			res.viol, res.tags = fmt.Sprintf(f, a...), tags
		}
	}
	if sched.Deadlock {
		res.deadlock = true
		fail("C09,C08", "deadlock: no request of the block can continue: %s", strings.Join(sched.Blocked, "; "))
		return // the blocked tasks hold locks: the world cannot be inspected or shut down
	}
	if len(sched.Leaked) > 0 {
		res.deadlock = true
		fail("C09,C08", "every request of the block returned, but a lock is still held - every later request that needs it blocks forever: %s", strings.Join(sched.Leaked, "; "))
		return // the world cannot be inspected or shut down without blocking
	}
	for _, t := range w.Panics() {
		fail("C09,C08", "server code panicked: %s", t)
	}
	// ---- invariants at quiescence (exported API only) ----
	store := w.Store()
	type live struct {
		s  *models.Session
		id string
	}
	sessions := map[*models.Session]bool{}
	for slot := range ex.M.Conns {
		if rh := w.RH(slot); rh != nil && !w.Ended(slot) {
			if s := rh.CurrentSession(); s != nil {
				sessions[s] = true
				id := store.GlobalSessionID(s.ID)
				got, ok := store.GetByGlobalID(id)
				if !ok || got != s {
					fail("C07", "connection c%d was answered that it joined session %q (participant %d) but that id does not resolve to its session: the join is orphaned", slot, id, rh.CurrentParticipant().ID)
				}
				found := false
				for _, p := range s.GetParticipants() {
					if p == rh.CurrentParticipant() {
						found = true
					}
				}
				if !found {
					fail("C07,C01", "connection c%d believes it is participant %d of %q but the session does not list it", slot, rh.CurrentParticipant().ID, id)
				}
			}
		}
	}
	for _, s := range ex.M.Live {
		if got, ok := store.GetByGlobalID(s.ID); ok {
			sessions[got] = true
		}
	}
	for slot := range ex.M.Conns {
		for _, rx := range w.Inbox(slot)[inboxBefore[slot]:] {
			if jr, ok := rx.M.(*hagallpb.ParticipantJoinResponse); ok {
				if got, ok := store.GetByGlobalID(jr.SessionId); ok {
					sessions[got] = true
				}
			}
		}
	}
	byID := map[uint32]*models.Session{}
	registered := 0
	for s := range sessions {
		got, ok := store.GetByGlobalID(store.GlobalSessionID(s.ID))
		if ok && got == s {
			registered++
			if s.ParticipantCount() == 0 {
				fail("C07", "session %q has no participant but its id still resolves", store.GlobalSessionID(s.ID))
			}
		} else if s.ParticipantCount() > 0 {
			fail("C07", "a session with %d participant(s) (numeric id %d) is not registered under its id", s.ParticipantCount(), s.ID)
		}
		// a session with members is live whether or not the registry still knows it: no two of
		// them may carry the same id (the registry itself cannot hold two under one key, so this
		// must not be restricted to the registered ones)
		if s.ParticipantCount() > 0 {
			if o := byID[s.ID]; o != nil && o != s {
				fail("C10,C07", "two sessions that both have members share the id %q", store.GlobalSessionID(s.ID))
			}
			byID[s.ID] = s
		}
		// participant ids are unique within a session
		seen := map[uint32]bool{}
		for _, p := range s.GetParticipants() {
			if seen[p.ID] {
				fail("C10", "participant id %d is held by two members of session %q", p.ID, store.GlobalSessionID(s.ID))
			}
			seen[p.ID] = true
		}
	}
	if g := sessionGauge() - gauge0; g != float64(registered) {
		fail("C07", "session gauge moved by %v since the case started, %d session(s) are registered", g, registered)
	}
	// every member's connection keeps exactly one per-frame callback registered
	for s := range sessions {
		if got, ok := store.GetByGlobalID(store.GlobalSessionID(s.ID)); !ok || got != s {
			continue // ended
		}
		if n := models.VerifFrameHandlerCount(s); n != s.ParticipantCount() {
			fail("C09,C11,C13,C01,C03,C08", "session %q has %d members but %d per-frame callbacks are registered (a member without one never gets its pose/component updates relayed)", store.GlobalSessionID(s.ID), s.ParticipantCount(), n)
		}
	}
	// a departure removes the leaver's non-persistent entities: none may be left whose owner is gone
	for s := range sessions {
		pids := map[uint32]bool{}
		for _, p := range s.GetParticipants() {
			pids[p.ID] = true
		}
		if got, ok := store.GetByGlobalID(store.GlobalSessionID(s.ID)); !ok || got != s {
			continue // ended
		}
		for _, e := range s.Entities() {
			if !e.Persist && !pids[e.ParticipantID] {
				fail("C06,C01", "session %q still holds the non-persistent entity %d of participant %d, who is no longer in the session", store.GlobalSessionID(s.ID), e.ID, e.ParticipantID)
			}
		}
	}
	// nothing may stay attached to an entity that is gone (a component / entity action added while the
	// entity was being removed by its owner's delete or departure)
	for s := range sessions {
		ents := map[uint32]bool{}
		for _, e := range s.Entities() {
			ents[e.ID] = true
		}
		for _, cp := range s.GetEntityComponents().ListAll() {
			if !ents[cp.EntityId] {
				fail("C12,C06,C09", "session %q holds a component (type %d) of entity %d, which no longer exists", store.GlobalSessionID(s.ID), cp.EntityComponentTypeId, cp.EntityId)
			}
		}
		if st, ok := s.ModuleState("vikja"); ok {
			for _, a := range st.(*vikja.State).EntityActions() {
				if !ents[a.EntityId] {
					fail("C16,C06,C09", "session %q holds an entity action (%q) of entity %d, which no longer exists", store.GlobalSessionID(s.ID), a.Name, a.EntityId)
				}
			}
		}
		if st, ok := s.ModuleState("odal"); ok {
			for _, a := range st.(*odal.State).AssetInstances() {
				if !ents[a.EntityId] {
					fail("C16,C06,C09", "session %q holds an asset instance of entity %d, which no longer exists", store.GlobalSessionID(s.ID), a.EntityId)
				}
			}
		}
	}
	compAdds := map[string]int{}
	for _, pl := range plan {
		if pl.op.Kind != "comp_add_on" {
			continue
		}
		rh := w.RH(pl.slot)
		for _, rx := range w.Inbox(pl.slot)[inboxBefore[pl.slot]:] {
			if rx.T == TCompAddResp && rx.ReqID() == pl.req && rh != nil && rh.CurrentSession() != nil {
				k := fmt.Sprintf("%p/1/%d", rh.CurrentSession(), pl.op.N)
				compAdds[k]++
				if compAdds[k] > 1 {
					fail("C12,C09", "two concurrent requests both added the component (type 1, entity %d)", pl.op.N)
				}
			}
		}
	}
	// ids handed out inside the block
	type key struct {
		s  *models.Session
		id uint32
	}
	eids := map[key]int{}
	typeIDs := map[string]map[uint32]bool{}
	for _, pl := range plan {
		rh := w.RH(pl.slot)
		for _, rx := range w.Inbox(pl.slot)[inboxBefore[pl.slot]:] {
			switch m := rx.M.(type) {
			case *hagallpb.EntityAddResponse:
				if rh != nil && rh.CurrentSession() != nil {
					k := key{rh.CurrentSession(), m.EntityId}
					eids[k]++
					if eids[k] > 1 {
						fail("C10", "entity id %d was issued twice in one session by concurrent requests", m.EntityId)
					}
					if mc := ex.M.Conns[pl.slot]; mc != nil && mc.Sess != nil && before[pl.slot].sess == rh.CurrentSession() && mc.Sess.eidEver(m.EntityId) {
						fail("C10", "entity id %d was issued before in this session", m.EntityId)
					}
				}
			case *hagallpb.EntityComponentTypeAddResponse:
				if rh != nil && rh.CurrentSession() != nil {
					name := []string{"blk", "blk", "blk2"}[pl.op.N%3]
					k := fmt.Sprintf("%p/%s", rh.CurrentSession(), name)
					if typeIDs[k] == nil {
						typeIDs[k] = map[uint32]bool{}
					}
					typeIDs[k][m.EntityComponentTypeId] = true
					ecs := rh.CurrentSession().GetEntityComponents()
					if id, err := ecs.GetTypeID(name); err != nil || id != m.EntityComponentTypeId {
						fail("C10,C12", "type %q was registered as id %d by this request but the name now resolves to %d (%v)", name, m.EntityComponentTypeId, id, err)
					}
					if n, err := ecs.GetTypeName(m.EntityComponentTypeId); err != nil || n != name {
						fail("C10,C12", "type id %d was returned for %q but resolves to %q (%v)", m.EntityComponentTypeId, name, n, err)
					}
				}
			}
		}
	}
	for k, ids := range typeIDs {
		if len(ids) > 1 {
			fail("C10,C12", "concurrent registrations of one type name (%s) returned different ids %v", k, ids)
		}
	}
	// every request of the block that carries an id was answered exactly once (C04/C09: it completed)
	for _, pl := range plan {
		if pl.close || pl.req == 0 || pl.op.Kind == "custom" {
			continue
		}
		n := 0
		for _, rx := range w.Inbox(pl.slot)[inboxBefore[pl.slot]:] {
			if rx.ReqID() == pl.req && rx.T != TSessionState {
				n++
			}
		}
		if n != 1 && !w.Ended(pl.slot) {
			fail("C09,C04", "request %d (%s by c%d) of the block got %d answers", pl.req, pl.op.Kind, pl.slot, n)
		}
	}
	// exactly-once relay to the members that were in the session throughout the block (C02)
	for slot, b := range before {
		rh := w.RH(slot)
		if rh == nil || w.Ended(slot) || rh.CurrentSession() != b.sess {
			continue
		}
		inBlock := false
		for _, pl := range plan {
			if pl.slot == slot && (pl.close || strings.HasPrefix(pl.op.Kind, "join")) {
				inBlock = true
			}
		}
		if inBlock {
			continue
		}
		adds, dels, joins, leaves, customs := map[uint32]int{}, map[uint32]int{}, map[uint32]int{}, map[uint32]int{}, map[string]int{}
		for _, rx := range w.Inbox(slot)[inboxBefore[slot]:] {
			switch m := rx.M.(type) {
			case *hagallpb.EntityAddBroadcast:
				adds[m.Entity.GetId()]++
			case *hagallpb.EntityDeleteBroadcast:
				dels[m.EntityId]++
			case *hagallpb.ParticipantJoinBroadcast:
				joins[m.ParticipantId]++
			case *hagallpb.ParticipantLeaveBroadcast:
				leaves[m.ParticipantId]++
			case *hagallpb.CustomMessageBroadcast:
				customs[string(m.Body)]++
			}
		}
		for _, pl := range plan {
			if pl.slot == slot {
				continue
			}
			ob, wasMember := before[pl.slot]
			for _, rx := range w.Inbox(pl.slot)[inboxBefore[pl.slot]:] {
				switch m := rx.M.(type) {
				case *hagallpb.EntityAddResponse:
					if wasMember && ob.sess == b.sess && adds[m.EntityId] != 1 {
						fail("C02", "member c%d (in the session throughout the block) received the add of entity %d %d times", slot, m.EntityId, adds[m.EntityId])
					}
				case *hagallpb.ParticipantJoinResponse:
					if got, ok := store.GetByGlobalID(m.SessionId); ok && got == b.sess && joins[m.ParticipantId] != 1 {
						fail("C02", "member c%d (in the session throughout the block) received the join of participant %d %d times", slot, m.ParticipantId, joins[m.ParticipantId])
					}
				}
			}
			if pl.op.Kind == "custom" && wasMember && ob.sess == b.sess && customs[string([]byte{0xB0, byte(indexOf(c.Block, pl.op))})] != 1 {
				fail("C02", "member c%d (in the session throughout the block) received the custom message of c%d %d times", slot, pl.slot, customs[string([]byte{0xB0, byte(indexOf(c.Block, pl.op))})])
			}
			if (pl.close || strings.HasPrefix(pl.op.Kind, "join")) && wasMember && ob.sess == b.sess && w.RH(pl.slot) != nil && (w.Ended(pl.slot) || w.RH(pl.slot).CurrentSession() != b.sess) && leaves[ob.pid] != 1 {
				fail("C02,C06", "member c%d (in the session throughout the block) received the departure of participant %d %d times", slot, ob.pid, leaves[ob.pid])
			}
		}
		for id, n := range adds {
			if n > 1 {
				fail("C02", "member c%d received the add of entity %d %d times", slot, id, n)
			}
		}
		for id, n := range dels {
			if n > 1 {
				fail("C02", "member c%d received the delete of entity %d %d times", slot, id, n)
			}
		}
	}
	// ---- frames: what the flush tasks released (C11, C13) ----
	if c.Frames {
		stable := true // no request of the block removes members, entities or components
		opOf := map[int]string{}
		for _, pl := range plan {
			opOf[pl.slot] = pl.op.Kind
			if pl.close || pl.op.Kind == "entity_del" || pl.op.Kind == "join_new" {
				stable = false
			}
			if pl.op.Kind == "join_existing" {
				if _, was := before[pl.slot]; was {
					stable = false // a switch is a departure
				}
			}
		}
		// (a) after its unsubscription was answered a connection gets no further update notification
		for _, pl := range plan {
			if pl.op.Kind != "unsub" {
				continue
			}
			answered := false
			for _, rx := range w.Inbox(pl.slot)[inboxBefore[pl.slot]:] {
				if rx.T == TUnsubResp && rx.ReqID() == pl.req {
					answered = true
					continue
				}
				if m, ok := rx.M.(*hagallpb.EntityComponentUpdateBroadcast); ok && answered && m.EntityComponent.GetEntityComponentTypeId() == 1 {
					fail("C13", "connection c%d received an update notification for type 1 (entity %d) after its unsubscription from that type had been answered", pl.slot, m.EntityComponent.GetEntityId())
				}
			}
		}
		throughout := func(slot int, sess *models.Session) bool {
			b, ok := before[slot]
			if !ok || b.sess != sess || w.Ended(slot) || w.RH(slot) == nil || w.RH(slot).CurrentSession() != sess {
				return false
			}
			k := opOf[slot]
			return k != "close" && !strings.HasPrefix(k, "join")
		}
		if stable {
			// (b) component updates: exactly once to every member subscribed throughout, never to others
			for slot := range before {
				mc := ex.M.Conns[slot]
				if mc == nil || !mc.joined() || !throughout(slot, before[slot].sess) {
					continue
				}
				want := map[CompKey]int{}
				for _, p := range pendingComp {
					if p.slot == slot || before[p.slot].sess != before[slot].sess {
						continue
					}
					if _, exists := mc.Sess.Comps[p.key]; exists {
						want[p.key]++
					}
				}
				got := map[CompKey]int{}
				for _, rx := range w.Inbox(slot)[inboxBefore[slot]:] {
					if m, ok := rx.M.(*hagallpb.EntityComponentUpdateBroadcast); ok {
						got[CompKey{m.EntityComponent.GetEntityComponentTypeId(), m.EntityComponent.GetEntityId()}]++
					}
				}
				for k, n := range want {
					_, subscribed := mc.Sess.Subs[k.Tid][mc.Pid]
					switch {
					case opOf[slot] == "unsub" && k.Tid == 1, opOf[slot] == "sub":
						if got[k] > n {
							fail("C13,C02", "connection c%d received the update of component (%d,%d) %d times, %d member(s) sent one", slot, k.Tid, k.Eid, got[k], n)
						}
					case subscribed && got[k] != n:
						fail("C13,C02", "connection c%d (subscribed to type %d throughout) received the update of component (%d,%d) %d times, %d member(s) sent one", slot, k.Tid, k.Tid, k.Eid, got[k], n)
					case !subscribed && got[k] != 0:
						fail("C13", "connection c%d is not subscribed to type %d but received %d update notification(s) for component (%d,%d)", slot, k.Tid, got[k], k.Tid, k.Eid)
					}
				}
			}
			// (c) poses: the owner's pending update is relayed exactly once to every member present
			// throughout; a newcomer ends up with it (in its snapshot or by the relay)
			for _, p := range pendingPose {
				fm := ex.M.Conns[p.slot]
				if fm == nil || !fm.joined() || p.pose == nil {
					continue
				}
				en := fm.Sess.Ents[p.eid]
				if en == nil || en.Owner != fm.Pid {
					continue // dropped: not the owner / no such entity
				}
				sess := before[p.slot].sess
				for slot := range ex.M.Conns {
					if slot == p.slot {
						continue
					}
					rh := w.RH(slot)
					if rh == nil || w.Ended(slot) || rh.CurrentSession() != sess {
						continue
					}
					msgs := w.Inbox(slot)[inboxBefore[slot]:]
					n, last := 0, [7]uint32{}
					haveLast := false
					if throughout(slot, sess) {
						for _, rx := range msgs {
							if m, ok := rx.M.(*hagallpb.EntityUpdatePoseBroadcast); ok && m.EntityId == p.eid {
								n++
								last, haveLast = f32bits(m.Pose), true
							}
						}
						if n != 1 || !haveLast || last != *p.pose {
							fail("C11,C02", "connection c%d (in the session throughout) received the pose update of entity %d %d times (last %08x, sent %08x)", slot, p.eid, n, last, *p.pose)
						}
						continue
					}
					// joined inside the block
					joinedAt := -1
					for i, rx := range msgs {
						if _, ok := rx.M.(*hagallpb.ParticipantJoinResponse); ok {
							joinedAt = i
						}
					}
					if joinedAt < 0 {
						continue
					}
					for _, rx := range msgs[joinedAt:] {
						if ss, ok := rx.M.(*hagallpb.SessionState); ok && !haveLast {
							for _, e := range ss.Entities {
								if e.Id == p.eid {
									last, haveLast = f32bits(e.Pose), true
								}
							}
						}
					}
					for _, rx := range msgs[joinedAt:] {
						if m, ok := rx.M.(*hagallpb.EntityUpdatePoseBroadcast); ok && m.EntityId == p.eid {
							last, haveLast = f32bits(m.Pose), true
						}
					}
					if !haveLast || last != *p.pose {
						fail("C11,C01", "connection c%d joined while the owner's pose update of entity %d was being processed and ends up with pose %08x, the server holds %08x", slot, p.eid, last, *p.pose)
					}
				}
			}
		}
	}
	// ---- a session created and joined at the same moment: its module state must be ONE state ----
	predicted := false
	for _, pl := range plan {
		predicted = predicted || pl.op.Kind == "join_predicted"
	}
	if predicted && res.viol == "" {
		var members []int
		var sess *models.Session
		for _, pl := range plan {
			if rh := w.RH(pl.slot); rh != nil && !w.Ended(pl.slot) && rh.CurrentSession() != nil && strings.HasPrefix(pl.op.Kind, "join") {
				if sess == nil || rh.CurrentSession() == sess {
					sess = rh.CurrentSession()
					members = append(members, pl.slot)
				}
			}
		}
		if len(members) >= 2 {
			// every member stores something in each module, then a newcomer must be handed all of it
			probeReq := uint32(950000)
			type stored struct {
				eid  uint32
				slot int
			}
			var all []stored
			for _, slot := range members {
				n0 := len(w.Inbox(slot))
				probeReq++
				w.Send(slot, &hagallpb.EntityAddRequest{Type: TEntityAddReq, Timestamp: ts, RequestId: probeReq, Persist: true})
				var eid uint32
				for _, rx := range w.Inbox(slot)[n0:] {
					if m, ok := rx.M.(*hagallpb.EntityAddResponse); ok {
						eid = m.EntityId
					}
				}
				if eid == 0 {
					continue
				}
				probeReq++
				w.Send(slot, &vikjapb.EntityActionRequest{Type: TActionReq, Timestamp: ts, RequestId: probeReq, EntityAction: &vikjapb.EntityAction{EntityId: eid, Name: "probe", Timestamp: &timestamppb.Timestamp{Seconds: 1700000500}, Data: []byte{byte(slot)}}})
				probeReq++
				w.Send(slot, &odalpb.AssetInstanceAddRequest{Type: TAssetReq, Timestamp: ts, RequestId: probeReq, EntityId: eid, AssetId: "probe"})
				all = append(all, stored{eid, slot})
			}
			newcomer := -1
			for slot := 0; slot < c.Conns; slot++ {
				if rh := w.RH(slot); rh == nil || (rh.CurrentSession() == nil && !w.Ended(slot)) {
					newcomer = slot
					break
				}
			}
			if newcomer >= 0 && len(all) > 0 {
				if w.RH(newcomer) == nil {
					w.Connect(newcomer)
				}
				n0 := len(w.Inbox(newcomer))
				probeReq++
				w.Send(newcomer, &hagallpb.ParticipantJoinRequest{Type: TJoinReq, Timestamp: ts, RequestId: probeReq, SessionId: store.GlobalSessionID(sess.ID)})
				actions, assets := map[uint32]bool{}, map[uint32]bool{}
				joined := false
				for _, rx := range w.Inbox(newcomer)[n0:] {
					switch m := rx.M.(type) {
					case *hagallpb.ParticipantJoinResponse:
						joined = true
					case *vikjapb.State:
						for _, a := range m.EntityActions {
							actions[a.EntityId] = true
						}
					case *odalpb.State:
						for _, a := range m.AssetInstances {
							assets[a.EntityId] = true
						}
					}
				}
				for _, st := range all {
					if joined && (!actions[st.eid] || !assets[st.eid]) {
						fail("C16,C01,C09", "the session was created by one connection and joined by another at the same moment; afterwards member c%d stored an entity action and an asset instance for its entity %d, but a newcomer is not handed them (action: %v, asset: %v): the members do not share one module state", st.slot, st.eid, actions[st.eid], assets[st.eid])
					}
				}
			}
		}
	}
	// convergence (C01): what every member can reconstruct equals what the server holds
	for slot := range ex.M.Conns {
		rh := w.RH(slot)
		if rh == nil || w.Ended(slot) || rh.CurrentSession() == nil {
			continue
		}
		s := rh.CurrentSession()
		parts, ents := map[uint32]bool{}, map[uint32]bool{}
		msgs := w.Inbox(slot)
		start := 0
		if b, ok := before[slot]; ok && b.sess == s {
			// joined before the block: its replica was in order after the prefix
			if mc := ex.M.Conns[slot]; mc != nil && mc.View != nil {
				for p := range mc.View.Parts {
					parts[p] = true
				}
				for e := range mc.View.Ents {
					ents[e] = true
				}
			}
			start = inboxBefore[slot]
		} else {
			// joined inside the block: the state handed on joining, updated by every
			// broadcast received since the join was answered - also those that
			// overtook the snapshot (a client queues them until the snapshot is there)
			start = len(msgs)
			for i := len(msgs) - 1; i >= inboxBefore[slot]; i-- {
				if _, ok := msgs[i].M.(*hagallpb.ParticipantJoinResponse); ok {
					start = i + 1
					break
				}
			}
			for i := start; i < len(msgs); i++ {
				if ss, ok := msgs[i].M.(*hagallpb.SessionState); ok {
					for _, p := range ss.Participants {
						parts[p.Id] = true
					}
					for _, e := range ss.Entities {
						ents[e.Id] = true
					}
					break
				}
			}
		}
		// broadcasts applied idempotently, in arrival order; those that arrived between the
		// join response and the snapshot are applied after it (a client library queues them)
		apply := func(rx Rx) {
			switch m := rx.M.(type) {
			case *hagallpb.ParticipantJoinBroadcast:
				parts[m.ParticipantId] = true
			case *hagallpb.ParticipantLeaveBroadcast:
				delete(parts, m.ParticipantId)
			case *hagallpb.EntityAddBroadcast:
				ents[m.Entity.GetId()] = true
			case *hagallpb.EntityDeleteBroadcast:
				delete(ents, m.EntityId)
			case *hagallpb.EntityAddResponse:
				ents[m.EntityId] = true
			}
		}
		for _, rx := range msgs[start:] {
			apply(rx)
		}
		for _, pl := range plan { // own accepted delete
			if pl.slot == slot && pl.op.Kind == "entity_del" {
				for _, rx := range msgs[inboxBefore[slot]:] {
					if rx.T == TEntityDelResp {
						var r hagallpb.EntityDeleteRequest
						proto.Unmarshal(pl.bytes, &r)
						delete(ents, r.EntityId)
					}
				}
			}
		}
		srvParts, srvEnts := map[uint32]bool{}, map[uint32]bool{}
		for _, p := range s.GetParticipants() {
			srvParts[p.ID] = true
		}
		for _, e := range s.Entities() {
			srvEnts[e.ID] = true
		}
		// a member that left this session inside the block and is still in this connection's replica:
		// the connection was in the session (it holds the leaver in its state) and was never told (C02, C06)
		for _, pl := range plan {
			ob, wasMember := before[pl.slot]
			if (pl.close || strings.HasPrefix(pl.op.Kind, "join")) && wasMember && ob.sess == s && pl.slot != slot && (w.Ended(pl.slot) || (w.RH(pl.slot) != nil && w.RH(pl.slot).CurrentSession() != s)) && parts[ob.pid] && !srvParts[ob.pid] {
				fail("C01,C02,C06", "connection c%d (participant %d) holds participant %d in its state but was never told that it left", slot, rh.CurrentParticipant().ID, ob.pid)
			}
		}
		if d := setDiff(parts, srvParts); d != "" {
			fail("C01", "connection c%d (participant %d) reconstructs other participants than the server holds: %s", slot, rh.CurrentParticipant().ID, d)
		}
		if d := setDiff(ents, srvEnts); d != "" {
			fail("C01", "connection c%d (participant %d) reconstructs other entities than the server holds: %s", slot, rh.CurrentParticipant().ID, d)
		}
	}
	w.Shutdown()
	return
}

func indexOf(bs []BOp, b BOp) int {
	for i, x := range bs {
		if x == b {
			return i
		}
	}
	return -1
}

func setDiff(view, srv map[uint32]bool) string {
	var out []string
	for k := range srv {
		if !view[k] {
			out = append(out, fmt.Sprintf("%d missing in the replica", k))
		}
	}
	for k := range view {
		if !srv[k] {
			out = append(out, fmt.Sprintf("%d only in the replica", k))
		}
	}
	sort.Strings(out)
	return strings.Join(out, ", ")
}

var blockKinds = []string{"join_existing", "join_existing", "join_new", "close", "close", "entity_add", "entity_add", "entity_del", "custom", "type_add", "type_add", "sub", "comp_add", "asset"}

func genBlockCase(rt *rapid.T) blockCase {
	p := prof("sched", map[Op]int{OpJoin: 6, OpClose: 2, OpTick: 0, OpPose: 0, OpCompUpdate: 0, OpLatency: 0, OpPingResp: 0, OpReceipt: 0, OpQuad: 0, OpGround: 0, OpRegion: 0, OpDebug: 0})
	p.Setup, p.MinSteps, p.MaxSteps, p.MaxConns = 6, 0, 10, 4
	p.Modules = allModules
	sc := p.GenScript(rt)
	c := blockCase{Prefix: sc.Steps, Conns: sc.Cfg.Conns}
	perm := []int{0, 1, 2, 3}
	for i := range perm {
		j := i + uni(rt, "perm", len(perm)-i)
		perm[i], perm[j] = perm[j], perm[i]
	}
	conn := func(i int) int { return perm[i] % sc.Cfg.Conns }
	// the races the properties name, plus arbitrary blocks
	templates := [][]string{
		{"join_existing", "close"}, {"close", "close"}, {"join_new", "join_new"}, {"join_existing", "join_existing"},
		{"entity_add", "entity_add"}, {"type_add", "type_add"}, {"join_existing", "entity_add"}, {"join_existing", "entity_del"},
		{"custom", "close"}, {"asset", "asset"}, {"join_new", "close"}, {"join_existing", "close", "join_new"}, {"close", "close", "join_existing"},
		{"sub", "comp_add"}, {"type_add", "type_add", "type_add"}, {"close", "close", "join_new"}, {"close", "join_new", "join_new"}, {"close", "close", "close"},
		{"comp_add_on", "entity_del"}, {"comp_add_on", "close"}, {"action_on", "entity_del"}, {"action_on", "close"}, {"comp_add_on", "comp_add_on"},
		{"comp_add_on", "entity_del", "join_existing"}, {"action_on", "comp_add_on", "close"},
		{"join_new", "join_predicted"}, {"join_new", "join_predicted", "join_predicted"},
	}
	if uni(rt, "with_frames", 5) == 0 {
		return genFrameBlock(rt)
	}
	directed := false
	if uni(rt, "templated", 4) != 0 {
		tpl := pick(rt, "template", templates)
		directed = uni(rt, "directed", 3) != 0
		if directed {
			// a minimal prefix that fits the template: the requests that need a session
			// come from the (only) members of one session; joins come from outside
			c.Prefix, c.Conns = nil, 4
			first := -1
			for i, k := range tpl {
				if !strings.HasPrefix(k, "join") {
					if first < 0 {
						first = i
						c.Prefix = append(c.Prefix, Step{Conn: i, Op: OpJoin, Sess: Ref{Kind: SessNew}})
					} else {
						c.Prefix = append(c.Prefix, Step{Conn: i, Op: OpJoin, Sess: Ref{Kind: SessLive}})
					}
				}
			}
			if first < 0 {
				first = 3
				c.Prefix = append(c.Prefix, Step{Conn: 3, Op: OpJoin, Sess: Ref{Kind: SessNew}})
			}
			for i, k := range tpl {
				if !strings.HasPrefix(k, "join") {
					c.Prefix = append(c.Prefix, Step{Conn: i, Op: OpEntityAdd, Persist: uni(rt, "persist", 2) == 0})
				}
			}
			c.Prefix = append(c.Prefix, Step{Conn: first, Op: OpTypeAdd, Name: "a"}, Step{Conn: first, Op: OpSub, Typ: Ref{Kind: TypEver}})
			conn = func(i int) int { return i }
		}
		for i, k := range tpl {
			if i < c.Conns {
				n := uni(rt, "bn", 6)
				if k == "type_add" {
					n = 0 // the same name
				}
				if strings.HasSuffix(k, "_on") {
					// the entity another request of the block removes (directed prefixes: the j-th
					// member's entity has id j), or entity 1 when nobody does
					n = 1
					rank := 0
					for j, k2 := range tpl {
						if !strings.HasPrefix(k2, "join") {
							rank++
							if j != i && (k2 == "entity_del" || k2 == "close") {
								n = rank
							}
						}
					}
					if !directed {
						n = 1 + uni(rt, "on", 3)
					}
				}
				c.Block = append(c.Block, BOp{Conn: conn(i), Kind: k, N: n})
			}
		}
	} else {
		n := 2 + uni(rt, "block_size", 2)
		for i := 0; i < n && i < sc.Cfg.Conns; i++ {
			c.Block = append(c.Block, BOp{Conn: conn(i), Kind: pick(rt, "bkind", blockKinds), N: uni(rt, "bn", 6)})
		}
	}
	return c
}

// genFrameBlock: blocks in which a frame's released updates are handled concurrently with
// subscription changes, joins and other requests.
func genFrameBlock(rt *rapid.T) blockCase {
	c := blockCase{Conns: 4, Frames: true}
	pose := func(v uint32) *[7]uint32 { return &[7]uint32{v, 0, 0, 0, 0, 0, 0x3f800000} }
	c.Prefix = []Step{
		{Conn: 0, Op: OpJoin, Sess: Ref{Kind: SessNew}},
		{Conn: 1, Op: OpJoin, Sess: Ref{Kind: SessLive}},
		{Conn: 2, Op: OpJoin, Sess: Ref{Kind: SessLive}},
		{Conn: 0, Op: OpEntityAdd, Pose: pose(0x3f800000)},
		{Conn: 2, Op: OpEntityAdd, Pose: pose(0x40000000), Persist: uni(rt, "persist", 2) == 0},
		{Conn: 0, Op: OpTypeAdd, Name: "a"},
		{Conn: 0, Op: OpCompAdd, Ent: Ref{Kind: EntMine}, Typ: Ref{Kind: TypEver}, Data: []byte{1}},
	}
	sub := func(conn int) { c.Prefix = append(c.Prefix, Step{Conn: conn, Op: OpSub, Typ: Ref{Kind: TypEver}}) }
	switch uni(rt, "frame_template", 5) {
	case 0: // an update is handed out while a subscriber unsubscribes
		sub(1)
		if uni(rt, "second_subscriber", 2) == 0 {
			sub(2)
		}
		c.Prefix = append(c.Prefix, Step{Conn: 0, Op: OpCompUpdate, Ent: Ref{Kind: EntMine}, Typ: Ref{Kind: TypEver}, Data: []byte{2}})
		c.Block = []BOp{{Conn: 0, Kind: "flush"}, {Conn: 1, Kind: "unsub"}}
		if uni(rt, "third", 2) == 0 {
			c.Block = append(c.Block, BOp{Conn: 2, Kind: pick(rt, "third_kind", []string{"unsub", "sub", "custom", "comp_add_on"}), N: 2})
		}
	case 1: // two members update the same component, a third is subscribed, a fourth subscribes
		sub(1)
		c.Prefix = append(c.Prefix,
			Step{Conn: 0, Op: OpCompUpdate, Ent: Ref{Kind: EntMine}, Typ: Ref{Kind: TypEver}, Data: []byte{2}},
			Step{Conn: 2, Op: OpCompUpdate, Ent: Ref{Kind: EntForeign}, Typ: Ref{Kind: TypEver}, Data: []byte{3}})
		c.Block = []BOp{{Conn: 0, Kind: "flush"}, {Conn: 2, Kind: "flush"}, {Conn: 1, Kind: pick(rt, "k1", []string{"unsub", "custom", "flush"})}}
	case 2: // the owner's pose update is processed while somebody joins
		c.Prefix = append(c.Prefix, Step{Conn: 0, Op: OpPose, Ent: Ref{Kind: EntMine}, Pose: pose(0x40400000 + uint32(uni(rt, "px", 64)))})
		c.Block = []BOp{{Conn: 0, Kind: "flush"}, {Conn: 3, Kind: "join_existing"}}
		if uni(rt, "third", 2) == 0 {
			c.Block = append(c.Block, BOp{Conn: 1, Kind: pick(rt, "third_kind", []string{"custom", "entity_add", "sub"})})
		}
	case 3: // two owners' pose updates and a joiner
		c.Prefix = append(c.Prefix,
			Step{Conn: 0, Op: OpPose, Ent: Ref{Kind: EntMine}, Pose: pose(0x40400000)},
			Step{Conn: 2, Op: OpPose, Ent: Ref{Kind: EntMine}, Pose: pose(0x40800000)})
		c.Block = []BOp{{Conn: 0, Kind: "flush"}, {Conn: 2, Kind: "flush"}, {Conn: 3, Kind: "join_existing"}}
	default: // updates are processed while members leave or entities go (no count oracle: only the invariants)
		sub(1)
		c.Prefix = append(c.Prefix,
			Step{Conn: 0, Op: OpCompUpdate, Ent: Ref{Kind: EntMine}, Typ: Ref{Kind: TypEver}, Data: []byte{2}},
			Step{Conn: 0, Op: OpPose, Ent: Ref{Kind: EntMine}, Pose: pose(0x40400000)},
			Step{Conn: 2, Op: OpPose, Ent: Ref{Kind: EntMine}, Pose: pose(0x40800000)})
		c.Block = []BOp{{Conn: 0, Kind: "flush"}, {Conn: 2, Kind: pick(rt, "k2", []string{"flush", "close", "entity_del"})}, {Conn: 1, Kind: pick(rt, "k1", []string{"close", "unsub", "join_new"})}}
	}
	return c
}

// violFor returns the first recorded violation of a block that bears on the property.
func violFor(prop string, res blockResult) string {
	if res.viol == "" {
		return ""
	}
	if schedTags(prop, res.tags) {
		return res.viol
	}
	for _, m := range res.more {
		if schedTags(prop, m[0]) {
			return m[1]
		}
	}
	return ""
}

func schedTags(prop string, tags string) bool {
	for _, t := range strings.Split(tags, ",") {
		if t == prop {
			return true
		}
	}
	return false
}

// schedTest is shared by the properties with a concurrency clause.
func schedTest(t *testing.T, prop string) {
	thorough := os.Getenv("VERIF_TIER") == "thorough"
	col := NewCollector(prop, "S", "scheduled driver: a sequential prefix (<=6 state-building + <=12 steps, 2-4 connections, all modules) followed by a block of 2-3 requests by different connections (join of an existing session, creation, close, entity add/delete, custom message, registration of one type name, subscribe/unsubscribe, component add, entity action or component on an entity that another request removes, asset add; in one block of five a frame is dispatched first and the pose/component updates it releases are handled by their senders' tasks) executed as tasks of a cooperative scheduler with a yield before every lock acquisition in models/ and module state; quick tier: the continuing task at each yield is drawn by rapid; thorough tier: additionally, for each generated block, every schedule with at most 2 preemptions is enumerated; oracles at quiescence through exported API: no deadlock, every request answered once, no orphaned join (returned id resolves to the joiner's session), registry == non-empty sessions, no shared session/participant/entity ids, type names and ids one-to-one, session gauge == registered sessions, exactly-once relays to members present throughout, replicas == server state, no lock left held, nothing attached to an entity that is gone, no non-persistent entity of a departed member, one per-frame callback per member, no update notification after an answered unsubscription, released pose/component updates relayed exactly once to the members (subscribers) present throughout and reflected in a newcomer's state; non-trivial = distinct (block, schedule) with >=1 preemption, i.e. a request was descheduled between two of its lock acquisitions although it could have continued")
	t.Cleanup(col.Write)
	if rp := os.Getenv("VERIF_REPLAY"); rp != "" {
		var c blockCase
		if err := readJSON(rp, &c); err != nil || len(c.Block) == 0 {
			t.Skipf("replay file not usable: %v", err)
		}
		res := runBlock(c, func(y vsync.Yield, i int) int { return schedulePolicy(c.Choices, y, i) })
		if v := violFor(prop, res); v != "" {
			t.Fatalf("replay violates %s: %s", prop, v)
		}
		return
	}
	exhaustiveBlocks := 0
	rapid.Check(t, func(rt *rapid.T) {
		// the five properties that share this driver explore different blocks
		for i := 0; i < int(prop[1]-'0')*10+int(prop[2]-'0'); i++ {
			uni(rt, "salt", 2)
		}
		c := genBlockCase(rt)
		// first the schedule without preemption (it also tells how many yields there are) ...
		base := make([]int, 1)
		base[0] = uni(rt, "first", 3)
		run := func(choices []int) blockResult {
			if curFile != "" { // lets the driver re-run this very schedule alone if the process wedges
				cc := c
				cc.Choices = choices
				if b, err := jsonMarshal(cc); err == nil {
					os.WriteFile(curFile, []byte(b), 0o644)
				}
			}
			return runBlock(c, func(y vsync.Yield, i int) int { return schedulePolicy(choices, y, i) })
		}
		res0 := run(base)
		// ... then 1-3 preemption points drawn uniformly over its yields: at such a
		// point the running request is descheduled in favour of another one
		L := res0.yields
		if L < 2 {
			L = 2
		}
		draw := func() []int {
			ch := make([]int, L+8)
			for i := range ch {
				ch[i] = -1 - uni(rt, "tie", 3) // -1: lowest id next when the running request ends; -2.. another one
			}
			ch[0] = uni(rt, "first", 3)
			for k, n := 0, 1+uni(rt, "preemptions", 3); k < n; k++ {
				ch[1+uni(rt, "at", L-1)] = 100 + uni(rt, "to", 2)
			}
			return ch
		}
		c.Choices = draw()
		report := func(res blockResult, choices []int) {
			if v := violFor(prop, res); v != "" {
				col.Violations++
				cc := c
				cc.Choices = choices
				saveCase(prop, cc)
				rt.Fatalf("%s violated: %s\n%s\nschedule:\n  %s", prop, v, strings.Join(cc.pretty(), "\n"), strings.Join(res.trace, "\n  "))
			}
		}
		if v := violFor(prop, res0); v != "" {
			col.Violations++
			cc := c
			cc.Choices = base
			saveCase(prop, cc)
			rt.Fatalf("%s violated: %s\n%s\nschedule:\n  %s", prop, v, strings.Join(cc.pretty(), "\n"), strings.Join(res0.trace, "\n  "))
		}
		res := run(c.Choices)
		b, _ := jsonMarshal(c)
		col.Case(b, res.preempts >= 1, map[string]int{"yields": res.yields, "preempted": res.preempts, "deadlock": b2i(res.deadlock), "other_property": b2i(res.viol != "" && violFor(prop, res) == ""), "block_with_frame": b2i(c.Frames)}, func() any { return c.pretty() })
		report(res, c.Choices)
		// a few more sampled schedules of the same block
		for j := 0; j < 10; j++ {
			ch := draw()
			r := run(ch)
			cc := c
			cc.Choices = ch
			bb, _ := jsonMarshal(cc)
			col.Case(bb, r.preempts >= 1, map[string]int{"extra_schedule": 1, "preempted": r.preempts}, func() any { return cc.pretty() })
			report(r, ch)
		}
		if thorough && exhaustiveBlocks < 120 {
			// every schedule with at most 2 preemptions of this block (stateless re-execution)
			exhaustiveBlocks++
			n := enumerateSchedules(c, 2, func(choices []int, r blockResult) bool {
				col.Evaluations++
				if r.preempts >= 1 {
					col.NTCount++
				}
				report(r, choices)
				return true
			})
			col.Labels["blocks_enumerated_exhaustively"]++
			col.Labels["schedules_enumerated"] += n
		}
	})
}

// schedulePolicy: choices[i] >= 0 picks the (choices[i] mod n)-th enabled task
// at the i-th yield; -1 (or beyond the list) lets the running task continue.
func schedulePolicy(choices []int, y vsync.Yield, i int) int {
	if i < len(choices) && choices[i] >= 100 {
		var others []int
		for k, e := range y.Enabled {
			if e != y.Running {
				others = append(others, k)
			}
		}
		if len(others) > 0 {
			return others[(choices[i]-100)%len(others)]
		}
	} else if i < len(choices) && choices[i] >= 0 {
		return choices[i] % len(y.Enabled)
	}
	for k, e := range y.Enabled {
		if e == y.Running {
			return k
		}
	}
	// the running request has finished or is blocked: who is next is a choice too
	if i < len(choices) && choices[i] <= -2 {
		return (-choices[i] - 2) % len(y.Enabled)
	}
	return 0
}

// enumerateSchedules runs every schedule of the block with at most maxPre
// preemptions: depth-first over the choice at each yield, re-executing the
// case from scratch for each schedule.
func enumerateSchedules(c blockCase, maxPre int, visit func(choices []int, r blockResult) bool) int {
	n := 0
	var rec func(prefix []int)
	rec = func(prefix []int) {
		var enabledAt [][]int
		var runningAt []int
		res := runBlock(c, func(y vsync.Yield, i int) int {
			enabledAt = append(enabledAt, append([]int{}, y.Enabled...))
			runningAt = append(runningAt, y.Running)
			return schedulePolicy(prefix, y, i)
		})
		n++
		if !visit(prefix, res) || n > 2000 {
			return
		}
		// preemptions used by the prefix
		used := 0
		for i := 0; i < len(prefix) && i < len(enabledAt); i++ {
			if prefix[i] < 0 {
				continue
			}
			chosen := enabledAt[i][prefix[i]%len(enabledAt[i])]
			if runningAt[i] >= 0 && chosen != runningAt[i] && contains(enabledAt[i], runningAt[i]) {
				used++
			}
		}
		// branch at every later yield on every alternative choice
		for i := len(prefix); i < len(enabledAt); i++ {
			def := 0
			for k, e := range enabledAt[i] {
				if e == runningAt[i] {
					def = k
				}
			}
			for k := range enabledAt[i] {
				if k == def {
					continue
				}
				pre := used
				if runningAt[i] >= 0 && contains(enabledAt[i], runningAt[i]) {
					pre++
				}
				if pre > maxPre {
					continue
				}
				next := append([]int{}, prefix...)
				for j := len(prefix); j < i; j++ {
					next = append(next, -1)
				}
				next = append(next, k)
				rec(next)
			}
		}
	}
	rec(nil)
	return n
}

func contains(l []int, x int) bool {
	for _, e := range l {
		if e == x {
			return true
		}
	}
	return false
}

func TestC01Sched(t *testing.T) { schedTest(t, "C01") }
func TestC02Sched(t *testing.T) { schedTest(t, "C02") }
func TestC07Sched(t *testing.T) { schedTest(t, "C07") }
func TestC09Sched(t *testing.T) { schedTest(t, "C09") }
func TestC10Sched(t *testing.T) { schedTest(t, "C10") }
func TestC12Sched(t *testing.T) { schedTest(t, "C12") }
func TestC16Sched(t *testing.T) { schedTest(t, "C16") }
func TestC08Sched(t *testing.T) { schedTest(t, "C08") }
func TestC11Sched(t *testing.T) { schedTest(t, "C11") }
func TestC13Sched(t *testing.T) { schedTest(t, "C13") }
func TestC06Sched(t *testing.T) { schedTest(t, "C06") }

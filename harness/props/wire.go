package props

import (
	"fmt"
	"math"
	"sort"
	"strings"

	"github.com/aukilabs/hagall-common/messages/dagazpb"
	"github.com/aukilabs/hagall-common/messages/hagallpb"
	"github.com/aukilabs/hagall-common/messages/odalpb"
	"github.com/aukilabs/hagall-common/messages/vikjapb"
	hwebsocket "github.com/aukilabs/hagall-common/websocket"
	"google.golang.org/protobuf/proto"
	"google.golang.org/protobuf/reflect/protoreflect"
	"google.golang.org/protobuf/types/known/timestamppb"
)

// Message type numbers (hagallpb / vikjapb / odalpb / dagazpb share one number space).
const (
	TError             = 0
	TSyncClock         = 1
	TSessionState      = 2
	TJoinReq           = 3
	TJoinResp          = 4
	TJoinBcast         = 5
	TLeaveReq          = 6
	TLeaveBcast        = 7
	TEntityAddReq      = 8
	TEntityAddResp     = 9
	TEntityAddBcast    = 10
	TEntityDelReq      = 11
	TEntityDelResp     = 12
	TEntityDelBcast    = 13
	TPose              = 14
	TPoseBcast         = 15
	TCustom            = 16
	TCustomBcast       = 17
	TTypeAddReq        = 18
	TTypeAddResp       = 19
	TGetNameReq        = 20
	TGetNameResp       = 21
	TGetIDReq          = 22
	TGetIDResp         = 23
	TCompAddReq        = 24
	TCompAddResp       = 25
	TCompAddBcast      = 26
	TCompDelReq        = 27
	TCompDelResp       = 28
	TCompDelBcast      = 29
	TCompUpdate        = 30
	TCompUpdateBcast   = 31
	TCompListReq       = 32
	TCompListResp      = 33
	TSubReq            = 34
	TSubResp           = 35
	TUnsubReq          = 36
	TUnsubResp         = 37
	TPingReq           = 38
	TPingResp          = 39
	TReceiptReq        = 40
	TReceiptResp       = 41
	TSignedLatencyReq  = 42
	TSignedLatencyResp = 43
	TVikjaState        = 100
	TActionReq         = 101
	TActionResp        = 102
	TActionBcast       = 103
	TOdalState         = 200
	TAssetReq          = 201
	TAssetResp         = 202
	TAssetBcast        = 203
	TQuadSample        = 300
	TGroundReq         = 301
	TGroundResp        = 302
	TRegionReq         = 303
	TRegionResp        = 304
	TDebugReq          = 305
	TDebugResp         = 306
)

var typeNames = map[int32]string{
	0: "ERROR", 1: "SYNC_CLOCK", 2: "SESSION_STATE", 3: "JOIN_REQ", 4: "JOIN_RESP", 5: "JOIN_BCAST", 6: "LEAVE_REQ", 7: "LEAVE_BCAST",
	8: "ENTITY_ADD_REQ", 9: "ENTITY_ADD_RESP", 10: "ENTITY_ADD_BCAST", 11: "ENTITY_DEL_REQ", 12: "ENTITY_DEL_RESP", 13: "ENTITY_DEL_BCAST",
	14: "POSE", 15: "POSE_BCAST", 16: "CUSTOM", 17: "CUSTOM_BCAST", 18: "TYPE_ADD_REQ", 19: "TYPE_ADD_RESP", 20: "GET_NAME_REQ", 21: "GET_NAME_RESP",
	22: "GET_ID_REQ", 23: "GET_ID_RESP", 24: "COMP_ADD_REQ", 25: "COMP_ADD_RESP", 26: "COMP_ADD_BCAST", 27: "COMP_DEL_REQ", 28: "COMP_DEL_RESP",
	29: "COMP_DEL_BCAST", 30: "COMP_UPDATE", 31: "COMP_UPDATE_BCAST", 32: "COMP_LIST_REQ", 33: "COMP_LIST_RESP", 34: "SUB_REQ", 35: "SUB_RESP",
	36: "UNSUB_REQ", 37: "UNSUB_RESP", 38: "PING_REQ", 39: "PING_RESP", 40: "RECEIPT_REQ", 41: "RECEIPT_RESP", 42: "SIGNED_LATENCY_REQ",
	43: "SIGNED_LATENCY_RESP", 100: "VIKJA_STATE", 101: "ACTION_REQ", 102: "ACTION_RESP", 103: "ACTION_BCAST", 200: "ODAL_STATE",
	201: "ASSET_REQ", 202: "ASSET_RESP", 203: "ASSET_BCAST", 300: "QUAD_SAMPLE", 301: "GROUND_REQ", 302: "GROUND_RESP", 303: "REGION_REQ",
	304: "REGION_RESP", 305: "DEBUG_REQ", 306: "DEBUG_RESP",
}

func typeName(t int32) string {
	if n, ok := typeNames[t]; ok {
		return n
	}
	return fmt.Sprintf("TYPE_%d", t)
}

// newTyped allocates the protobuf struct that the server uses for a message
// type number that travels server -> client.
func newTyped(t int32) proto.Message {
	switch t {
	case TError:
		return &hagallpb.ErrorResponse{}
	case TSyncClock:
		return &hagallpb.SyncClock{}
	case TSessionState:
		return &hagallpb.SessionState{}
	case TJoinResp:
		return &hagallpb.ParticipantJoinResponse{}
	case TJoinBcast:
		return &hagallpb.ParticipantJoinBroadcast{}
	case TLeaveBcast:
		return &hagallpb.ParticipantLeaveBroadcast{}
	case TEntityAddResp:
		return &hagallpb.EntityAddResponse{}
	case TEntityAddBcast:
		return &hagallpb.EntityAddBroadcast{}
	case TEntityDelResp:
		return &hagallpb.EntityDeleteResponse{}
	case TEntityDelBcast:
		return &hagallpb.EntityDeleteBroadcast{}
	case TPoseBcast:
		return &hagallpb.EntityUpdatePoseBroadcast{}
	case TCustomBcast:
		return &hagallpb.CustomMessageBroadcast{}
	case TTypeAddResp:
		return &hagallpb.EntityComponentTypeAddResponse{}
	case TGetNameResp:
		return &hagallpb.EntityComponentTypeGetNameResponse{}
	case TGetIDResp:
		return &hagallpb.EntityComponentTypeGetIdResponse{}
	case TCompAddResp:
		return &hagallpb.EntityComponentAddResponse{}
	case TCompAddBcast:
		return &hagallpb.EntityComponentAddBroadcast{}
	case TCompDelResp:
		return &hagallpb.EntityComponentDeleteResponse{}
	case TCompDelBcast:
		return &hagallpb.EntityComponentDeleteBroadcast{}
	case TCompUpdateBcast:
		return &hagallpb.EntityComponentUpdateBroadcast{}
	case TCompListResp:
		return &hagallpb.EntityComponentListResponse{}
	case TSubResp:
		return &hagallpb.EntityComponentTypeSubscribeResponse{}
	case TUnsubResp:
		return &hagallpb.EntityComponentTypeUnsubscribeResponse{}
	case TPingReq, TPingResp:
		return &hagallpb.Response{}
	case TReceiptResp:
		return &hagallpb.ReceiptResponse{}
	case TSignedLatencyResp:
		return &hagallpb.SignedLatencyResponse{}
	case TVikjaState:
		return &vikjapb.State{}
	case TActionResp:
		return &vikjapb.EntityActionResponse{}
	case TActionBcast:
		return &vikjapb.EntityActionBroadcast{}
	case TOdalState:
		return &odalpb.State{}
	case TAssetResp:
		return &odalpb.AssetInstanceAddResponse{}
	case TAssetBcast:
		return &odalpb.AssetInstanceAddBroadcast{}
	case TGroundResp:
		return &dagazpb.DagazGetGroundPlaneResponse{}
	case TRegionResp:
		return &dagazpb.DagazGetRegionResponse{}
	case TDebugResp:
		return &dagazpb.DagazGetDebugInfoResponse{}
	}
	return &hagallpb.Msg{}
}

// Rx is one message as a client receives it: type number plus the decoded body.
type Rx struct {
	T   int32
	M   proto.Message
	Seq int // arrival index in the connection's inbox
}

// ReqID returns field "request_id" (number 1337) of the message, 0 if absent.
func (r Rx) ReqID() uint32 {
	fd := r.M.ProtoReflect().Descriptor().Fields().ByNumber(1337)
	if fd == nil {
		return 0
	}
	return uint32(r.M.ProtoReflect().Get(fd).Uint())
}

func (r Rx) String() string {
	s := prototextCompact(r.M)
	return typeName(r.T) + "{" + s + "}"
}

// prototextCompact renders a message without timestamps, deterministically.
func prototextCompact(m proto.Message) string {
	var parts []string
	m.ProtoReflect().Range(func(fd protoreflect.FieldDescriptor, v protoreflect.Value) bool {
		n := string(fd.Name())
		if n == "timestamp" || n == "origin_timestamp" || n == "type" {
			return true
		}
		parts = append(parts, n+"="+valString(fd, v))
		return true
	})
	sort.Strings(parts)
	return strings.Join(parts, " ")
}

func valString(fd protoreflect.FieldDescriptor, v protoreflect.Value) string {
	if fd.IsList() {
		l := v.List()
		var ps []string
		for i := 0; i < l.Len(); i++ {
			ps = append(ps, scalarString(fd, l.Get(i)))
		}
		if len(ps) > 12 {
			ps = append(ps[:12], fmt.Sprintf("...(%d)", l.Len()))
		}
		return "[" + strings.Join(ps, ",") + "]"
	}
	return scalarString(fd, v)
}

func scalarString(fd protoreflect.FieldDescriptor, v protoreflect.Value) string {
	switch fd.Kind() {
	case protoreflect.MessageKind:
		if ts, ok := v.Message().Interface().(*timestamppb.Timestamp); ok {
			return fmt.Sprintf("ts(%d.%09d)", ts.Seconds, ts.Nanos)
		}
		return "{" + prototextCompact(v.Message().Interface()) + "}"
	case protoreflect.BytesKind:
		b := v.Bytes()
		if len(b) > 16 {
			return fmt.Sprintf("bytes[%d]%x..", len(b), b[:8])
		}
		return fmt.Sprintf("%x", b)
	case protoreflect.FloatKind:
		f := float32(v.Float())
		return fmt.Sprintf("%g(%08x)", f, math.Float32bits(f))
	case protoreflect.StringKind:
		s := v.String()
		if len(s) > 40 {
			return fmt.Sprintf("%q..(%d)", s[:40], len(s))
		}
		return fmt.Sprintf("%q", s)
	}
	return fmt.Sprint(v.Interface())
}

// decodeMsg turns a message the server hands to a ResponseSender into an Rx.
func decodeMsg(msg hwebsocket.Msg) (Rx, error) {
	t := int32(-1)
	if msg.Type != nil {
		t = int32(msg.Type.Number())
	}
	m := newTyped(t)
	if err := msg.DataTo(m.(hwebsocket.ProtoMsg)); err != nil {
		return Rx{T: t, M: m}, err
	}
	return Rx{T: t, M: m}, nil
}

// decodeBytes decodes a raw frame body (wire driver).
func decodeBytes(b []byte) (Rx, error) {
	var env hagallpb.Msg
	if err := proto.Unmarshal(b, &env); err != nil {
		return Rx{T: -1, M: &env}, err
	}
	t := int32(env.Type)
	m := newTyped(t)
	if err := proto.Unmarshal(b, m); err != nil {
		return Rx{T: t, M: m}, err
	}
	return Rx{T: t, M: m}, nil
}

// toWire converts a request as a client library would build it into what
// hwebsocket.Receive would hand to the connection loop: Type carried as
// hagallpb.MsgType (also for module messages), Time from the timestamp, body =
// the client's bytes. ok=false means Receive would have failed (no timestamp).
func toWire(p proto.Message) (hwebsocket.Msg, bool) {
	b, err := proto.Marshal(p)
	if err != nil {
		return hwebsocket.Msg{}, false
	}
	return bytesToWire(b)
}

func bytesToWire(b []byte) (hwebsocket.Msg, bool) {
	var env hagallpb.Msg
	if err := proto.Unmarshal(b, &env); err != nil {
		return hwebsocket.Msg{}, false
	}
	if env.Timestamp == nil {
		return hwebsocket.Msg{}, false
	}
	msg, err := hwebsocket.MsgFromProto(&env)
	if err != nil {
		return hwebsocket.Msg{}, false
	}
	return msg, true
}

func f32bits(p *hagallpb.Pose) [7]uint32 {
	if p == nil {
		return [7]uint32{}
	}
	return [7]uint32{math.Float32bits(p.Px), math.Float32bits(p.Py), math.Float32bits(p.Pz), math.Float32bits(p.Rx), math.Float32bits(p.Ry), math.Float32bits(p.Rz), math.Float32bits(p.Rw)}
}

func poseFromBits(b [7]uint32) *hagallpb.Pose {
	return &hagallpb.Pose{Px: math.Float32frombits(b[0]), Py: math.Float32frombits(b[1]), Pz: math.Float32frombits(b[2]), Rx: math.Float32frombits(b[3]), Ry: math.Float32frombits(b[4]), Rz: math.Float32frombits(b[5]), Rw: math.Float32frombits(b[6])}
}

func mustMarshal(p proto.Message) []byte {
	b, err := proto.Marshal(p)
	if err != nil {
		panic(err)
	}
	return b
}

package props

import (
	"encoding/json"
	"fmt"
	"os"
	"runtime"
	"sort"
	"strconv"
	"strings"
	"testing"
	"testing/synctest"
	"time"

	"pgregory.net/rapid"
)

// Collector gathers what a check actually explored; written as one JSON file
// per test process and merged by the driver into the evidence file.
type Collector struct {
	Prop        string         `json:"property_id"`
	Part        string         `json:"part"`
	Evaluations int            `json:"evaluations"`
	NonTrivial  []string       `json:"nontrivial_digests"`
	NTCount     int            `json:"nontrivial_count"` // distinct non-trivial cases counted without keeping their digests (complete enumerations)
	Labels      map[string]int `json:"labels"`
	Samples     []any          `json:"samples"`
	Excluded    int            `json:"excluded_known"`
	Foreign     int            `json:"cases_stopped_by_other_property"`
	Violations  int            `json:"violations"`
	Known       []string       `json:"known_findings_reproduced"`
	Rule        string         `json:"rule"`
	Exhaustive  bool           `json:"exhaustive,omitempty"`
	WallS       float64        `json:"wall_s"`
	Requested   int            `json:"requested"`
	Extra       map[string]any `json:"extra,omitempty"`

	nt    map[string]bool
	start time.Time
}

func NewCollector(prop, part, rule string) *Collector {
	return &Collector{Prop: prop, Part: part, Rule: rule, Labels: map[string]int{}, nt: map[string]bool{}, start: time.Now(), Extra: map[string]any{}}
}

func (c *Collector) Case(digest string, nontrivial bool, labels map[string]int, sample func() any) {
	c.Evaluations++
	for k, v := range labels {
		if v > 0 {
			c.Labels[k]++
		}
	}
	if nontrivial && !c.nt[digest] {
		c.nt[digest] = true
		if len(c.Samples) < 3 {
			c.Samples = append(c.Samples, sample())
		}
	}
}

func (c *Collector) Write() {
	c.WallS = time.Since(c.start).Seconds()
	c.NonTrivial = c.NonTrivial[:0]
	for d := range c.nt {
		c.NonTrivial = append(c.NonTrivial, d)
	}
	sort.Strings(c.NonTrivial)
	dir := os.Getenv("VERIF_STATS_DIR")
	if dir == "" {
		return
	}
	shard := os.Getenv("VERIF_SHARD")
	if shard == "" {
		shard = "0"
	}
	b, _ := json.MarshalIndent(c, "", " ")
	os.WriteFile(fmt.Sprintf("%s/%s.%s.%s.json", dir, c.Prop, c.Part, shard), b, 0o644)
}

// ---------------------------------------------------------------------------
// known findings

type KnownFinding struct {
	Property string `json:"property"`
	Key      string `json:"key"`
	Status   string `json:"status"` // known | fixed
	Commit   string `json:"commit,omitempty"`
	What     string `json:"what"`
}

var knownFindings = func() []KnownFinding {
	p := os.Getenv("VERIF_KNOWN_FINDINGS")
	if p == "" {
		p = "/verif/known_findings.json"
	}
	b, err := os.ReadFile(p)
	if err != nil {
		return nil
	}
	var f struct {
		Findings []KnownFinding `json:"findings"`
	}
	if json.Unmarshal(b, &f) != nil {
		return nil
	}
	return f.Findings
}()

// isKnown reports whether a finding with this key is listed as known (not fixed).
func isKnown(key string) bool {
	for _, f := range knownFindings {
		if f.Key == key && f.Status == "known" {
			return true
		}
	}
	return false
}

func exclusionsFromFindings() Exclusions {
	if os.Getenv("VERIF_NO_EXCLUSIONS") != "" {
		return Exclusions{}
	}
	return Exclusions{PendingAcrossJoin: isKnown("dispatcher-pending-across-session-change")}
}

// ---------------------------------------------------------------------------
// running one case

type CaseOpts struct {
	Registry bool
	Ex       Exclusions
	Setup    func(w *HWorld)
	Wire     bool // run on driver W (real websocket.Handle over net.Pipe)
	WOpts    WOpts
}

// RunH executes a script on driver H inside a fresh synctest bubble.
func RunH(t *testing.T, sc Script, o CaseOpts) (ex *Exec) {
	defer func() {
		if r := recover(); r != nil {
			if ex == nil {
				panic(r)
			}
			ex.Viol = append(ex.Viol, Violation{Tags: "C08,C07,C09,C04,C19", Step: ex.stepIdx, Msg: fmt.Sprintf("server code blocks forever / goroutines of the case outlived it: %v", r)})
		}
	}()
	noteCurrent(sc)
	synctest.Test(t, func(t *testing.T) {
		var w Driver
		idle := time.Duration(0)
		if o.Wire {
			wo := o.WOpts
			if sc.Cfg.IdleMs > 0 {
				// one nanosecond off the millisecond grid: an idle deadline never
				// coincides with a frame tick or with a scripted instant
				wo.IdleTimeout = time.Duration(sc.Cfg.IdleMs)*time.Millisecond + time.Nanosecond
				idle = wo.IdleTimeout
			}
			w = NewWWorld(sc.Cfg, wo)
		} else {
			hw := NewHWorld(sc.Cfg)
			if o.Setup != nil {
				o.Setup(hw)
			}
			w = hw
		}
		ex = NewExec(w, sc.Cfg)
		ex.Ex = o.Ex
		ex.Registry = o.Registry
		ex.Idle = idle
		ex.Gauge0 = sessionGauge()
		ex.G0 = runtime.NumGoroutine()
		ex.Run(sc)
		ex.Finish()
		w.Shutdown()
	})
	return ex
}

func envInt(name string, def int) int {
	if v := os.Getenv(name); v != "" {
		if n, err := strconv.Atoi(v); err == nil {
			return n
		}
	}
	return def
}

func saveFailure(prop string, sc Script, v []Violation) string {
	dir := os.Getenv("VERIF_FAIL_DIR")
	if dir == "" {
		return ""
	}
	p := fmt.Sprintf("%s/%s.script.json", dir, prop)
	if os.Getenv("VERIF_KEEP_ALL_FAILS") != "" {
		p = fmt.Sprintf("%s/%s.%s.script.json", dir, prop, sc.Digest())
	}
	b, _ := json.MarshalIndent(map[string]any{"property": prop, "script": sc, "violations": v, "pretty": sc.Pretty()}, "", " ")
	os.WriteFile(p, b, 0o644)
	return p
}

func loadReplay(path string) (Script, error) {
	b, err := os.ReadFile(path)
	if err != nil {
		return Script{}, err
	}
	var f struct {
		Script Script `json:"script"`
	}
	if err := json.Unmarshal(b, &f); err != nil {
		return Script{}, err
	}
	return f.Script, nil
}

// ModelCheck is the shared body of every model-based property test on driver
// H: generate a script from the profile, run it against the real handlers,
// fail on violations tagged with the property.
type ModelCheck struct {
	Prop     string
	Part     string
	Profile  Profile
	Rule     string
	NT       func(e *Exec, sc Script) bool
	Registry bool
	Wire     bool
	Mutate   func(sc *Script) // deterministic post-processing of the drawn script
}

func violationsFor(ex *Exec, prop string) (mine []Violation, foreign []Violation) {
	for _, v := range ex.Viol {
		if v.Has(prop) {
			mine = append(mine, v)
		} else {
			foreign = append(foreign, v)
		}
	}
	return
}

func (mc ModelCheck) Run(t *testing.T) { mc.Run2(t, nil) }

// Run2 is Run with a custom script generator.
func (mc ModelCheck) Run2(t *testing.T, gen func(*rapid.T) Script) {
	col := NewCollector(mc.Prop, mc.Part, mc.Rule)
	t.Cleanup(col.Write)
	opts := CaseOpts{Registry: mc.Registry, Ex: exclusionsFromFindings(), Wire: mc.Wire}
	if rp := os.Getenv("VERIF_REPLAY"); rp != "" {
		sc, err := loadReplay(rp)
		if err != nil {
			t.Skipf("replay file not usable: %v", err)
		}
		ex := RunH(t, sc, opts)
		mine, _ := violationsFor(ex, mc.Prop)
		col.Case(sc.Digest(), true, ex.Labels, func() any { return sc.Pretty() })
		if len(mine) > 0 {
			col.Violations++
			t.Fatalf("replay violates %s: %v", mc.Prop, mine)
		}
		return
	}
	rapid.Check(t, func(rt *rapid.T) {
		var sc Script
		if gen != nil {
			sc = gen(rt)
		} else {
			sc = mc.Profile.GenScript(rt)
		}
		if mc.Mutate != nil {
			mc.Mutate(&sc)
		}
		ex := RunH(t, sc, opts)
		mine, foreign := violationsFor(ex, mc.Prop)
		nt := len(foreign) == 0 && mc.NT(ex, sc)
		col.Excluded += ex.Excluded
		col.Case(sc.Digest(), nt, ex.Labels, func() any { return sc.Pretty() })
		if len(foreign) > 0 && len(mine) == 0 {
			col.Foreign++
			if os.Getenv("VERIF_DEBUG_FOREIGN") != "" {
				fmt.Println("FOREIGN:", foreign[0])
				saveFailure(mc.Prop+".foreign", sc, foreign)
			}
		}
		if len(mine) > 0 {
			col.Violations++
			saveFailure(mc.Prop, sc, mine)
			rt.Fatalf("%s violated:\n  %s\nscript:\n  %s", mc.Prop, mine[0], strings.Join(sc.Pretty(), "\n  "))
		}
	})
}

// noteCurrent records the script about to run, so that the driver can tell
// which case was running if the process hangs or dies.
var curFile = os.Getenv("VERIF_CUR_FILE")

func noteCurrent(sc Script) {
	if curFile == "" {
		return
	}
	b, _ := json.Marshal(map[string]any{"script": sc, "pretty": sc.Pretty()})
	os.WriteFile(curFile, b, 0o644)
}

func writeJSON(path string, v any) {
	b, _ := json.MarshalIndent(v, "", " ")
	os.WriteFile(path, b, 0o644)
}

func readJSON(path string, v any) error {
	b, err := os.ReadFile(path)
	if err != nil {
		return err
	}
	return json.Unmarshal(b, v)
}

func jsonMarshal(v any) (string, error) {
	b, err := json.Marshal(v)
	return string(b), err
}

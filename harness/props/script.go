package props

import (
	"crypto/sha256"
	"encoding/hex"
	"encoding/json"
	"fmt"
	"strings"
)

// Op is one kind of client action.
type Op string

const (
	OpJoin       Op = "join"
	OpClose      Op = "close"
	OpEntityAdd  Op = "entity_add"
	OpEntityDel  Op = "entity_del"
	OpPose       Op = "pose"
	OpCustom     Op = "custom"
	OpTypeAdd    Op = "type_add"
	OpGetName    Op = "get_name"
	OpGetID      Op = "get_id"
	OpCompAdd    Op = "comp_add"
	OpCompDel    Op = "comp_del"
	OpCompUpdate Op = "comp_update"
	OpCompList   Op = "comp_list"
	OpSub        Op = "sub"
	OpUnsub      Op = "unsub"
	OpPing       Op = "ping"
	OpPingResp   Op = "ping_resp"
	OpAction     Op = "action"
	OpAsset      Op = "asset"
	OpQuad       Op = "quad"
	OpGround     Op = "ground"
	OpRegion     Op = "region"
	OpDebug      Op = "debug"
	OpReceipt    Op = "receipt"
	OpLatency    Op = "latency"
	OpUnknown    Op = "unknown_type"
	OpNoTS       Op = "no_timestamp"
	OpTick       Op = "tick"
	OpGarbage    Op = "garbage_frame"
	OpText       Op = "text_frame"
	OpBadTyped   Op = "bad_typed_frame"
	OpBurstBad   Op = "burst_bad"
	OpBurstPing  Op = "burst_ping"
	OpSilence    Op = "silence"
	OpStall      Op = "stall"
	OpAbort      Op = "abort"
)

// Reference kinds: abstract arguments that are resolved against the reference
// model when the step runs (server-chosen ids are not known beforehand).
const (
	// session refs
	SessNew     = "new"     // empty session id: create
	SessLive    = "live"    // N-th live session (creation order), mod count
	SessCurrent = "current" // the session the connection is in
	SessEnded   = "ended"   // id of the N-th session that has ended
	SessGarbage = "garbage" // a string that never was a session id

	// entity refs
	EntEver    = "ever"    // N-th entity id ever issued in my session (alive or not)
	EntAlive   = "alive"   // N-th live entity of my session
	EntMine    = "mine"    // N-th live entity I own
	EntForeign = "foreign" // N-th live entity somebody else owns (or owned)
	EntZero    = "zero"
	EntNever   = "never" // an id that was never issued

	// type refs
	TypEver  = "ever" // N-th registered type of my session
	TypZero  = "zero"
	TypNever = "never"
)

type Ref struct {
	Kind string `json:"k"`
	N    int    `json:"n,omitempty"`
}

// Step is one scripted action of one connection slot.
type Step struct {
	Conn int `json:"c"`
	Op   Op  `json:"op"`

	Sess Ref `json:"sess,omitzero"`
	Ent  Ref `json:"ent,omitzero"`
	Typ  Ref `json:"typ,omitzero"`

	Name    string     `json:"name,omitempty"`
	Data    []byte     `json:"data,omitempty"`
	BigLen  int        `json:"biglen,omitempty"` // when >0, Data is a generated body of this length (seeded by Data)
	Pose    *[7]uint32 `json:"pose,omitempty"`   // float32 bit patterns; nil = absent sub-message
	Persist bool       `json:"persist,omitempty"`
	Flag    int32      `json:"flag,omitempty"`
	Rcpts   []Ref      `json:"rcpts,omitempty"` // participant refs: kind member/self/stranger/other-session
	TSec    int64      `json:"tsec,omitempty"`
	TNano   int32      `json:"tnano,omitempty"`
	NoTS    bool       `json:"nots,omitempty"`  // vikja action without timestamp
	NoSub   bool       `json:"nosub,omitempty"` // omit the optional sub-message (action, ray, ...)
	Count   uint32     `json:"count,omitempty"` // signed latency iterations / raw type number
	F       []uint32   `json:"f,omitempty"`     // float32 bit patterns for dagaz requests
	Hash    []byte     `json:"hash,omitempty"`
	Sig     []byte     `json:"sig,omitempty"`
	Raw     []byte     `json:"raw,omitempty"`
}

const (
	PMember   = "member" // N-th member of my session (pid order)
	PSelf     = "self"
	PStranger = "stranger" // a pid never issued in my session
	PGone     = "gone"     // a pid that left my session
)

// Config is the server configuration of one generated case.
type Config struct {
	Modules    []string `json:"modules"` // subset of vikja, odal, dagaz (server order)
	Flags      []string `json:"flags,omitempty"`
	FrameMs    int      `json:"frame_ms"`
	ReceiptCap int      `json:"receipt_cap"`
	Conns      int      `json:"conns"`
	IdleMs     int      `json:"idle_ms,omitempty"` // client idle timeout (wire driver); 0 = one hour
	ReqBase    uint32   `json:"req_base,omitempty"` // request ids count up from here (0 = 100): ids beyond 2^16 and 2^31 must be echoed like small ones
}

type Script struct {
	Cfg   Config `json:"cfg"`
	Steps []Step `json:"steps"`
}

func (s Script) JSON() string {
	b, _ := json.Marshal(s)
	return string(b)
}

func (s Script) Digest() string {
	h := sha256.Sum256([]byte(s.JSON()))
	return hex.EncodeToString(h[:8])
}

func (c Config) has(mod string) bool {
	for _, m := range c.Modules {
		if m == mod {
			return true
		}
	}
	return false
}

func (st Step) String() string {
	var b strings.Builder
	fmt.Fprintf(&b, "c%d %s", st.Conn, st.Op)
	if st.Sess.Kind != "" {
		fmt.Fprintf(&b, " sess=%s/%d", st.Sess.Kind, st.Sess.N)
	}
	if st.Ent.Kind != "" {
		fmt.Fprintf(&b, " ent=%s/%d", st.Ent.Kind, st.Ent.N)
	}
	if st.Typ.Kind != "" {
		fmt.Fprintf(&b, " typ=%s/%d", st.Typ.Kind, st.Typ.N)
	}
	if st.Name != "" {
		fmt.Fprintf(&b, " name=%q", st.Name)
	}
	if st.BigLen > 0 {
		fmt.Fprintf(&b, " len=%d", st.BigLen)
	} else if len(st.Data) > 0 {
		fmt.Fprintf(&b, " data=%x", st.Data)
	}
	if st.Pose != nil {
		fmt.Fprintf(&b, " pose=%08x..", st.Pose[0])
	}
	if st.Persist {
		b.WriteString(" persist")
	}
	if len(st.Rcpts) > 0 {
		fmt.Fprintf(&b, " rcpts=%v", st.Rcpts)
	}
	if st.TSec != 0 || st.TNano != 0 {
		fmt.Fprintf(&b, " ts=%d.%09d", st.TSec, st.TNano)
	}
	if st.NoTS {
		b.WriteString(" nots")
	}
	if st.NoSub {
		b.WriteString(" nosub")
	}
	if st.Count != 0 {
		fmt.Fprintf(&b, " count=%d", st.Count)
	}
	return b.String()
}

func (s Script) Pretty() []string {
	out := []string{fmt.Sprintf("cfg modules=%v flags=%v frame=%dms conns=%d", s.Cfg.Modules, s.Cfg.Flags, s.Cfg.FrameMs, s.Cfg.Conns)}
	for i, st := range s.Steps {
		out = append(out, fmt.Sprintf("%d: %s", i, st.String()))
	}
	return out
}

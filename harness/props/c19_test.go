package props

import (
	"strings"
	"context"
	"crypto/ecdsa"
	"encoding/json"
	"fmt"
	"io"
	"math/big"
	"net"
	"net/http"
	"net/http/httptest"
	"os"
	"sort"
	"sync"
	"testing"
	"time"

	"github.com/aukilabs/hagall-common/ncsclient"
	"github.com/aukilabs/hagall/receipt"
	"github.com/ethereum/go-ethereum/crypto"
	"pgregory.net/rapid"
)

// ---------------------------------------------------------------------------
// independent reference: is (hash, sig) a recoverable secp256k1 signature?
// Plain math/big affine arithmetic, written from the curve definition.

var (
	secpP, _  = new(big.Int).SetString("FFFFFFFFFFFFFFFFFFFFFFFFFFFFFFFFFFFFFFFFFFFFFFFFFFFFFFFEFFFFFC2F", 16)
	secpN, _  = new(big.Int).SetString("FFFFFFFFFFFFFFFFFFFFFFFFFFFFFFFEBAAEDCE6AF48A03BBFD25E8CD0364141", 16)
	secpGx, _ = new(big.Int).SetString("79BE667EF9DCBBAC55A06295CE870B07029BFCDB2DCE28D959F2815B16F81798", 16)
	secpGy, _ = new(big.Int).SetString("483ADA7726A3C4655DA4FBFC0E1108A8FD17B448A68554199C47D08FFB10D4B8", 16)
)

type pt2 struct {
	x, y *big.Int
	inf  bool
}

func ptAdd(a, b pt2) pt2 {
	if a.inf {
		return b
	}
	if b.inf {
		return a
	}
	var lam *big.Int
	if a.x.Cmp(b.x) == 0 {
		if new(big.Int).Mod(new(big.Int).Add(a.y, b.y), secpP).Sign() == 0 {
			return pt2{inf: true}
		}
		num := new(big.Int).Mul(big.NewInt(3), new(big.Int).Mul(a.x, a.x))
		den := new(big.Int).ModInverse(new(big.Int).Mul(big.NewInt(2), a.y), secpP)
		lam = num.Mul(num, den)
	} else {
		num := new(big.Int).Sub(b.y, a.y)
		den := new(big.Int).ModInverse(new(big.Int).Mod(new(big.Int).Sub(b.x, a.x), secpP), secpP)
		lam = num.Mul(num, den)
	}
	lam.Mod(lam, secpP)
	x := new(big.Int).Mul(lam, lam)
	x.Sub(x, a.x).Sub(x, b.x).Mod(x, secpP)
	y := new(big.Int).Sub(a.x, x)
	y.Mul(y, lam).Sub(y, a.y).Mod(y, secpP)
	return pt2{x: x, y: y}
}

func ptMul(k *big.Int, p pt2) pt2 {
	r := pt2{inf: true}
	for i := k.BitLen() - 1; i >= 0; i-- {
		r = ptAdd(r, r)
		if k.Bit(i) == 1 {
			r = ptAdd(r, p)
		}
	}
	return r
}

func refRecoverable(hash, sig []byte) bool {
	if len(hash) != 32 || len(sig) != 65 || sig[64] >= 4 {
		return false
	}
	r := new(big.Int).SetBytes(sig[:32])
	s := new(big.Int).SetBytes(sig[32:64])
	if r.Sign() == 0 || s.Sign() == 0 || r.Cmp(secpN) >= 0 || s.Cmp(secpN) >= 0 {
		return false
	}
	x := new(big.Int).Set(r)
	if sig[64]&2 != 0 {
		x.Add(x, secpN)
		if x.Cmp(secpP) >= 0 {
			return false
		}
	}
	rhs := new(big.Int).Exp(x, big.NewInt(3), secpP)
	rhs.Add(rhs, big.NewInt(7)).Mod(rhs, secpP)
	y := new(big.Int).Exp(rhs, new(big.Int).Rsh(new(big.Int).Add(secpP, big.NewInt(1)), 2), secpP)
	if new(big.Int).Exp(y, big.NewInt(2), secpP).Cmp(rhs) != 0 {
		return false // x is not the abscissa of a curve point
	}
	if y.Bit(0) != uint(sig[64]&1) {
		y.Sub(secpP, y)
	}
	R := pt2{x: x, y: y}
	e := new(big.Int).SetBytes(hash)
	rinv := new(big.Int).ModInverse(r, secpN)
	// Q = r^-1 (s R - e G)
	sR := ptMul(s, R)
	eG := ptMul(new(big.Int).Mod(e, secpN), pt2{x: secpGx, y: secpGy})
	if !eG.inf {
		eG.y = new(big.Int).Sub(secpP, eG.y)
	}
	Q := ptMul(rinv, ptAdd(sR, eG))
	return !Q.inf
}

func refAccept(p ncsclient.ReceiptPayload) bool {
	h := keccak([]byte(p.Receipt))
	if string(h) != string(p.Hash) {
		return false
	}
	return refRecoverable(p.Hash, p.Signature)
}

// ---------------------------------------------------------------------------
// generation of triples: valid ones and single-field corruptions

var receiptKey = func() *ecdsa.PrivateKey {
	k, err := crypto.HexToECDSA("b71c71a67e1177ad4e901695e1b4b9ee17ae16c6668d313eac2f96dbcda3f291")
	if err != nil {
		panic(err)
	}
	return k
}()

func validTriple(text string) ncsclient.ReceiptPayload {
	h := keccak([]byte(text))
	sig, err := crypto.Sign(h, receiptKey)
	if err != nil {
		panic(err)
	}
	return ncsclient.ReceiptPayload{Receipt: text, Hash: h, Signature: sig}
}

func cp(b []byte) []byte { return append([]byte{}, b...) }

// genTriple returns a payload and the name of its class.
func genTriple(t *rapid.T, pool []string) (ncsclient.ReceiptPayload, string) {
	text := pick(t, "text", pool)
	p := validTriple(text)
	p.Hash, p.Signature = cp(p.Hash), cp(p.Signature)
	nb := secpN.Bytes()
	switch k := uni(t, "corruption", 20); k {
	case 0, 1, 2, 3, 4, 5:
		return p, "valid"
	case 6:
		p.Receipt = text + pick(t, "suffix", []string{" ", "x", "\n"})
		return p, "other_text"
	case 7:
		i := uni(t, "bit", 256)
		p.Hash[i/8] ^= 1 << (i % 8)
		return p, "hash_bit_flipped"
	case 8:
		p.Hash = p.Hash[:pick(t, "hlen", []int{0, 1, 31})]
		return p, "hash_truncated"
	case 9:
		p.Hash = append(p.Hash, 0)
		return p, "hash_extended"
	case 10:
		p.Signature = p.Signature[:pick(t, "slen", []int{0, 1, 64})]
		return p, "sig_truncated"
	case 11:
		p.Signature = append(p.Signature, 0)
		return p, "sig_extended"
	case 12:
		p.Signature[64] = pick(t, "recid", []byte{1 - p.Signature[64], 2, 3, 4, 27, 28, 255})
		return p, "recovery_byte"
	case 13:
		copy(p.Signature[:32], make([]byte, 32))
		return p, "r_zero"
	case 14:
		copy(p.Signature[32:64], make([]byte, 32))
		return p, "s_zero"
	case 15:
		copy(p.Signature[:32], nb)
		if uni(t, "plus", 2) == 1 {
			p.Signature[31]++
		}
		return p, "r_ge_n"
	case 16:
		copy(p.Signature[32:64], nb)
		return p, "s_ge_n"
	case 17:
		for i := range p.Signature {
			p.Signature[i] = rapid.Byte().Draw(t, "rnd")
		}
		p.Signature[64] = byte(uni(t, "rndv", 4))
		return p, "random_signature"
	case 18:
		i := uni(t, "sigbit", 64*8)
		p.Signature[i/8] ^= 1 << (i % 8)
		return p, "sig_bit_flipped"
	default:
		p.Receipt = ""
		p.Hash = keccak(nil)
		sig, _ := crypto.Sign(p.Hash, receiptKey)
		p.Signature = sig
		return p, "empty_text_valid_signature"
	}
}

var textPool = []string{"r", "receipt-1", "receipt-2", `{"app_id":"a","client_id":"c","bytes_sent":10}`, "é✓", "a\x00b", string(make([]byte, 300))}

func TestC19Verify(t *testing.T) {
	col := NewCollector("C19", "verify", "receipt triples: a valid one (Keccak-256 of the text, signature by a fresh key) or exactly one corruption of it - other text, flipped hash bit, truncated/extended hash, signature of wrong length, recovery byte in {other,2,3,4,27,28,255}, r or s = 0 or >= N, 65 random bytes, one flipped signature bit; ReceiptHandler.VerifyPayload must accept iff the hash is the Keccak-256 of the text and the signature is recoverable according to an independent math/big reference (both directions); non-trivial = distinct triple that differs from a valid one in exactly one field")
	t.Cleanup(col.Write)
	rh := receipt.ReceiptHandler{}
	rapid.Check(t, func(rt *rapid.T) {
		p, class := genTriple(rt, textPool)
		want := refAccept(p)
		got := rh.VerifyPayload(p) == nil
		col.Case(fmt.Sprintf("%q/%x/%x", p.Receipt, p.Hash, p.Signature), class != "valid", map[string]int{class: 1, fmt.Sprintf("reference_accepts_%v", want): 1}, func() any {
			return map[string]any{"class": class, "receipt": p.Receipt, "hash": fmt.Sprintf("%x", p.Hash), "signature": fmt.Sprintf("%x", p.Signature), "accepted": want}
		})
		if got != want {
			col.Violations++
			saveCase("C19", p)
			rt.Fatalf("C19 violated: VerifyPayload accepts=%v, reference accepts=%v for a %s triple: receipt=%q hash=%x sig=%x", got, want, class, p.Receipt, p.Hash, p.Signature)
		}
	})
}

// ---------------------------------------------------------------------------
// forwarding: accepted receipts reach the credit service once and unchanged,
// refused ones never - with the service up, slow, dropping connections, down.

type fwdCase struct {
	Mode  string                     `json:"service"` // up | slow | drop_after_read | down
	Subs  []ncsclient.ReceiptPayload `json:"submissions"`
	Class []string                   `json:"classes"`
}

var fwdInconclusive, fwdCases int

func runForward(c fwdCase) (viol string) {
	fwdCases++
	var mu sync.Mutex
	var got []ncsclient.ReceiptPayload
	// every case has its own path prefix: a late POST of an EARLIER case that reaches this case's
	// server (the port of a closed test server is reused) is not this case's business
	prefix := fmt.Sprintf("/case-%d-%d", os.Getpid(), fwdCases)
	record := func(r *http.Request) bool {
		b, _ := io.ReadAll(r.Body)
		if !strings.HasPrefix(r.URL.Path, prefix+"/") {
			return false
		}
		var p ncsclient.ReceiptPayload
		if r.Method != http.MethodPost || r.URL.Path != prefix+"/receipt" || json.Unmarshal(b, &p) != nil {
			mu.Lock()
			got = append(got, ncsclient.ReceiptPayload{Receipt: "<<malformed request " + r.Method + " " + r.URL.Path + ">>"})
			mu.Unlock()
			return false
		}
		mu.Lock()
		got = append(got, p)
		mu.Unlock()
		return true
	}
	srv := httptest.NewUnstartedServer(http.HandlerFunc(func(w http.ResponseWriter, r *http.Request) {
		record(r)
		switch c.Mode {
		case "slow":
			time.Sleep(40 * time.Millisecond)
		case "drop_after_read":
			if hj, ok := w.(http.Hijacker); ok {
				conn, _, _ := hj.Hijack()
				conn.Close()
				return
			}
		}
		w.WriteHeader(http.StatusOK)
	}))
	srv.Start()
	url := srv.URL + prefix
	if c.Mode == "down" {
		// a port nobody listens on
		l, _ := net.Listen("tcp", "127.0.0.1:0")
		url = "http://" + l.Addr().String() + prefix
		l.Close()
	}
	ch := make(chan ncsclient.ReceiptPayload, len(c.Subs)+1)
	ctx, cancel := context.WithCancel(context.Background())
	receipt.ReceiptHandler{NCSEndpoint: url, ReceiptChan: ch}.HandleReceipts(ctx)
	var want []ncsclient.ReceiptPayload
	for _, p := range c.Subs {
		if refAccept(p) && c.Mode != "down" {
			want = append(want, p)
		}
		ch <- p
	}
	// The loop handles submissions in order: once a final, well-formed
	// sentinel has reached the service, every earlier submission has been
	// verified and its forwarding started.
	sentinel := validTriple("sentinel-" + fmt.Sprint(len(c.Subs)))
	count := func() (n int, sentinelSeen bool) {
		mu.Lock()
		defer mu.Unlock()
		for _, p := range got {
			if p.Receipt == sentinel.Receipt {
				sentinelSeen = true
			} else {
				n++
			}
		}
		return
	}
	if c.Mode != "down" {
		ch <- sentinel
		barrier := time.Now().Add(20 * time.Second)
		for {
			if _, seen := count(); seen {
				break
			}
			if time.Now().After(barrier) {
				queued := len(ch)
				cancel()
				srv.Close()
				if queued == 0 {
					// the loop took every submission, the well-formed sentinel included, from the
					// queue and 20 s later the sentinel has still not reached the service
					n, _ := count()
					return fmt.Sprintf("a well-formed receipt was taken from the queue but has not reached the credit service 20 s later (%d of %d earlier submissions arrived)", n, len(want))
				}
				fwdInconclusive++
				return "" // submissions are still queued: the machine is too busy to decide (inconclusive)
			}
			time.Sleep(time.Millisecond)
		}
	}
	// everything was started before the sentinel; allow the stragglers to land
	grace := time.Now().Add(15 * time.Second) // returns as soon as everything has arrived; only a lost receipt waits this long
	for time.Now().Before(grace) {
		if n, _ := count(); n >= len(want) && len(ch) == 0 {
			break
		}
		time.Sleep(2 * time.Millisecond)
	}
	extra := 60 * time.Millisecond // duplicates would show up now
	if c.Mode == "drop_after_read" {
		extra = 700 * time.Millisecond // a client that retried would do so after a back-off
	}
	if c.Mode == "down" {
		extra = 150 * time.Millisecond
	}
	time.Sleep(extra)
	cancel()
	srv.Close()
	mu.Lock()
	defer mu.Unlock()
	key := func(p ncsclient.ReceiptPayload) string {
		return fmt.Sprintf("%q/%x/%x", p.Receipt, p.Hash, p.Signature)
	}
	var g, w []string
	for _, p := range got {
		if p.Receipt != sentinel.Receipt {
			g = append(g, key(p))
		}
	}
	for _, p := range want {
		w = append(w, key(p))
	}
	sort.Strings(g)
	sort.Strings(w)
	if fmt.Sprint(g) != fmt.Sprint(w) {
		return fmt.Sprintf("credit service (%s) received %d receipt(s), exactly the %d well-formed submission(s) were expected once each and unchanged;\n   received: %.300v\n   expected: %.300v", c.Mode, len(g), len(w), g, w)
	}
	return ""
}

func TestC19Forward(t *testing.T) {
	col := NewCollector("C19", "forward", "1-12 submissions (valid triples from a pool of texts and single-field corruptions of them, so that a corrupted triple and the valid triple with the same hash occur in one run) are pushed through the real ReceiptHandler.HandleReceipts loop towards an in-process HTTP credit service that is up, slow (40 ms), drops the connection after reading the request, or is down; the multiset of POSTed bodies must equal the well-formed submissions (independent reference), byte-identical fields, each exactly once; nothing when the service is down; non-trivial = distinct run containing a corrupted and a valid triple")
	t.Cleanup(col.Write)
	if rp := os.Getenv("VERIF_REPLAY"); rp != "" {
		var c fwdCase
		if err := readJSON(rp, &c); err != nil || len(c.Subs) == 0 {
			t.Skipf("replay file not usable: %v", err)
		}
		if v := runForward(c); v != "" {
			t.Fatalf("replay violates C19: %s", v)
		}
		return
	}
	defer func() {
		if fwdCases >= 4 && fwdInconclusive*2 > fwdCases && !t.Failed() {
			t.Fatalf("no verdict: %d of %d cases were inconclusive (submissions still queued after 20 s)", fwdInconclusive, fwdCases)
		}
	}()
	rapid.Check(t, func(rt *rapid.T) {
		c := fwdCase{Mode: pick(rt, "service", []string{"up", "up", "slow", "drop_after_read", "down"})}
		n := 1 + uni(rt, "n", 12)
		pool := textPool[:1+uni(rt, "pool", 3)]
		valid, bad := 0, 0
		for i := 0; i < n; i++ {
			p, class := genTriple(rt, pool)
			c.Subs = append(c.Subs, p)
			c.Class = append(c.Class, class)
			if class == "valid" {
				valid++
			} else {
				bad++
			}
		}
		v := runForward(c)
		col.Case(fmt.Sprint(c), v == "" && valid > 0 && bad > 0, map[string]int{"service_" + c.Mode: 1}, func() any { return map[string]any{"service": c.Mode, "classes": c.Class} })
		if v != "" {
			col.Violations++
			saveCase("C19", c)
			rt.Fatalf("C19 violated: %s\nclasses: %v", v, c.Class)
		}
	})
}

package props

import (
	"fmt"
	"os"
	"testing"
	"testing/synctest"
	"time"

	"github.com/aukilabs/hagall-common/messages/hagallpb"
	"google.golang.org/protobuf/types/known/timestamppb"
	"pgregory.net/rapid"
)

// C08, idle deadline coinciding with traffic: a message released by the frame
// worker (or written by the client) at the very instant the idle timer fires.
// Either outcome - dropped as idle, or kept - is acceptable at an exact tie;
// what must hold is that nothing wedges: the connection either keeps
// answering or its handler returns, and after all clients have gone no
// handler, goroutine, gauge or session is left. The tie is broken by Go's
// randomised select, hence many repetitions.

type idleRaceCase struct {
	K      int  `json:"idle_frames"`
	J      int  `json:"activity_after_frames"`
	Poses  int  `json:"pose_updates"`
	Direct bool `json:"client_writes_at_deadline"`
}

func runIdleRace(t *testing.T, c idleRaceCase) (viol string) {
	defer func() {
		// goroutines that stay blocked forever make the bubble panic when its
		// main goroutine exits: that is the wedge this test looks for
		if r := recover(); r != nil && viol == "" {
			viol = fmt.Sprintf("goroutines of the connection stay blocked forever: %v", r)
		}
	}()
	synctest.Test(t, func(t *testing.T) {
		frame := 10 * time.Millisecond
		cfg := Config{Modules: allModules, FrameMs: 10, Conns: 2}
		w := NewWWorld(cfg, WOpts{IdleTimeout: time.Duration(c.K) * frame})
		defer w.Shutdown()
		ts := func() *timestamppb.Timestamp { return &timestamppb.Timestamp{Seconds: 1700000000} }
		w.Connect(0)
		w.Connect(1)
		w.Send(0, &hagallpb.ParticipantJoinRequest{Type: TJoinReq, Timestamp: ts(), RequestId: 1})
		var sid string
		for _, rx := range w.Inbox(0) {
			if jr, ok := rx.M.(*hagallpb.ParticipantJoinResponse); ok {
				sid = jr.SessionId
			}
		}
		w.Send(1, &hagallpb.ParticipantJoinRequest{Type: TJoinReq, Timestamp: ts(), RequestId: 2, SessionId: sid})
		w.Send(0, &hagallpb.EntityAddRequest{Type: TEntityAddReq, Timestamp: ts(), RequestId: 3})
		// the witness keeps itself alive with pings at every step
		ping := func(req uint32) bool {
			n := len(w.Inbox(1))
			w.Send(1, &hagallpb.Request{Type: TPingReq, Timestamp: ts(), RequestId: req})
			for _, rx := range w.Inbox(1)[n:] {
				if rx.T == TPingResp && rx.ReqID() == req {
					return true
				}
			}
			return false
		}
		for i := 0; i < c.J; i++ {
			w.Advance(frame)
			ping(uint32(100 + i))
		}
		// connection 0's last consumed message: now. Its idle deadline is K frames ahead, on a frame tick.
		w.Send(0, &hagallpb.Request{Type: TPingReq, Timestamp: ts(), RequestId: 4})
		for i := 0; i < c.K-1; i++ {
			w.Advance(frame)
			ping(uint32(200 + i))
		}
		// pending pose updates are released by the tick that coincides with the deadline
		for i := 0; i < c.Poses; i++ {
			w.Send(0, &hagallpb.EntityUpdatePose{Type: TPose, Timestamp: ts(), EntityId: 1, Pose: &hagallpb.Pose{Px: float32(i)}})
		}
		if c.Direct {
			// ... or the client writes exactly at the deadline
			time.Sleep(frame)
			w.SendNoWait(0, mustMarshal(&hagallpb.Request{Type: TPingReq, Timestamp: ts(), RequestId: 5}))
			synctest.Wait()
		} else {
			w.Advance(frame)
		}
		ping(300)
		for i := 0; i < 3; i++ {
			w.Advance(frame)
			if !ping(uint32(301 + i)) {
				viol = "the witness in the same session no longer gets its pings answered"
				return
			}
		}
		if len(w.Panics()) > 0 {
			viol = "server code panicked: " + w.Panics()[0]
			return
		}
		if !w.Ended(0) {
			// kept: then it must still answer
			n := len(w.Inbox(0))
			w.Send(0, &hagallpb.Request{Type: TPingReq, Timestamp: ts(), RequestId: 6})
			ok := false
			for _, rx := range w.Inbox(0)[n:] {
				if rx.T == TPingResp && rx.ReqID() == 6 {
					ok = true
				}
			}
			if !ok && !w.Ended(0) {
				viol = "the connection was neither ended nor does it answer any more (wedged)"
				return
			}
		}
		w.Close(0)
		w.Close(1)
		w.Advance(frame)
		if l := w.Leaks(); len(l) > 0 {
			viol = fmt.Sprintf("after every client has gone: %v", l)
			return
		}
		if _, ok := w.Store().GetByGlobalID(sid); ok {
			viol = "the session still resolves after all its members have gone"
		}
	})
	return
}

func TestC08IdleRace(t *testing.T) {
	col := NewCollector("C08", "Wtie", "wire driver, fake clock: the idle timeout is an exact multiple of the frame duration so that the idle deadline of a connection coincides with the frame tick that releases its pending pose updates (or with a client write); drawn: timeout 2-8 frames, phase, 1-3 pending updates, tick-released vs client-written; either outcome of the tie is accepted, but the connection must keep answering or its handler must return, the witness must be undisturbed, and nothing may be left behind; repeated because the tie is broken by Go's randomised select; non-trivial = every distinct drawn shape")
	t.Cleanup(col.Write)
	if rp := os.Getenv("VERIF_REPLAY"); rp != "" {
		var c idleRaceCase
		if err := readJSON(rp, &c); err != nil || c.K == 0 {
			t.Skipf("replay file not usable: %v", err)
		}
		for i := 0; i < 200; i++ {
			if v := runIdleRace(t, c); v != "" {
				t.Fatalf("replay violates C08: %s", v)
			}
		}
		return
	}
	rapid.Check(t, func(rt *rapid.T) {
		c := idleRaceCase{K: 2 + uni(rt, "k", 7), J: uni(rt, "j", 4), Poses: 1 + uni(rt, "poses", 3), Direct: uni(rt, "direct", 3) == 0}
		v := runIdleRace(t, c)
		col.Case(fmt.Sprintf("%+v", c), true, map[string]int{"tie_case": 1}, func() any { return c })
		if v != "" {
			col.Violations++
			saveCase("C08", c)
			rt.Fatalf("C08 violated: %s (case %+v)", v, c)
		}
	})
}

//go:build verif

// Verification hook (overlay only, never committed to the repository): lets the
// harness drive the package-private message switch of the connection handler.
package websocket

import (
	"context"

	hwebsocket "github.com/aukilabs/hagall-common/websocket"
)

// VerifHandleMessage runs the real handler.handleMessage (core handler, then
// every module) for one already-dispatched message.
func VerifHandleMessage(ctx context.Context, h Handler, dispatcher hwebsocket.Dispatcher, msg hwebsocket.Msg, responder hwebsocket.ResponseSender) error {
	hh := handler{Handler: h, dispatcher: dispatcher}
	return hh.handleMessage(ctx, msg, responder)
}

// VerifSetAppKey sets what HandleConnect would have taken from the access
// token of the WebSocket request (the handler-level driver has no request).
func VerifSetAppKey(h *RealtimeHandler, appKey string) { h.appKey = appKey }

//go:build verif

// Package vsync is a drop-in replacement for the parts of package sync that
// hagall's models and module state use (Mutex, RWMutex, Once). It exists only
// in the verification overlay: the "sync" import of those files is redirected
// here at check time. Outside a scheduled block every type behaves exactly
// like its sync counterpart. Inside one, the goroutines registered as tasks
// run one at a time: before every lock acquisition a task yields to the
// scheduler, which decides who continues - this gives control over the
// interleaving of concurrent requests at lock granularity, and makes
// "nobody can continue" (deadlock) an observable state.
package vsync

import (
	"bytes"
	"fmt"
	"runtime"
	"strconv"
	"sync"
)

type WaitGroup = sync.WaitGroup
type Locker = sync.Locker

// Types of package sync that never block a task across a scheduling point are passed through
// unchanged, so that code under test which starts to use them still builds under the scheduler
// (their internal locks are taken and released within one call, without a yield in between).
// sync.Cond is deliberately absent: waiting on one would block the running task outside the
// scheduler's view, which it would report as a deadlock that the real program does not have.
type Map = sync.Map
type Pool = sync.Pool

func OnceFunc(f func()) func()                                 { return sync.OnceFunc(f) }
func OnceValue[T any](f func() T) func() T                     { return sync.OnceValue(f) }
func OnceValues[T1, T2 any](f func() (T1, T2)) func() (T1, T2) { return sync.OnceValues(f) }

func goid() int64 {
	var buf [64]byte
	b := buf[:runtime.Stack(buf[:], false)]
	b = bytes.TrimPrefix(b, []byte("goroutine "))
	if i := bytes.IndexByte(b, ' '); i > 0 {
		n, _ := strconv.ParseInt(string(b[:i]), 10, 64)
		return n
	}
	return -1
}

// ---------------------------------------------------------------------------
// scheduler

type Task struct {
	ID       int
	gid      int64
	wake     chan struct{}
	finished bool
	wantsW   *rw // about to call Lock on this (parked before the call)
	wantsR   *rw // about to call RLock
	blockW   *rw // blocked inside Lock
	blockR   *rw // blocked inside RLock
	Panic    any
}

type Yield struct {
	Task    int    // task that runs next
	Enabled []int  // tasks that could have run
	Running int    // task that was running (-1 at start)
	Op      string // what the chosen task is about to do
}

type Sched struct {
	mu       sync.Mutex
	tasks    []*Task
	byGid    map[int64]*Task
	parked   chan *Task
	Choose   func(y Yield) int // returns index into y.Enabled
	Trace    []Yield
	Deadlock bool
	Blocked  []string
	Leaked   []string // locks still held when every task had finished (a return path without Unlock)
	held     map[*rw]int
}

func (s *Sched) note(l *rw, d int) {
	s.mu.Lock()
	if s.held == nil {
		s.held = map[*rw]int{}
	}
	s.held[l] += d
	if s.held[l] <= 0 {
		delete(s.held, l)
	}
	s.mu.Unlock()
}

var (
	activeMu sync.RWMutex
	active   *Sched
)

func current() (*Sched, *Task) {
	activeMu.RLock()
	s := active
	activeMu.RUnlock()
	if s == nil {
		return nil, nil
	}
	g := goid()
	s.mu.Lock()
	t := s.byGid[g]
	s.mu.Unlock()
	if t == nil {
		return nil, nil
	}
	return s, t
}

// Run executes the functions as tasks under the scheduler and returns when
// all have finished or none can continue.
func (s *Sched) Run(fns []func()) {
	s.byGid = map[int64]*Task{}
	s.parked = make(chan *Task, len(fns)+1)
	activeMu.Lock()
	active = s
	activeMu.Unlock()
	defer func() {
		activeMu.Lock()
		active = nil
		activeMu.Unlock()
	}()
	for i, fn := range fns {
		t := &Task{ID: i, wake: make(chan struct{}, 1)}
		s.tasks = append(s.tasks, t)
		started := make(chan struct{})
		go func(t *Task, fn func()) {
			t.gid = goid()
			s.mu.Lock()
			s.byGid[t.gid] = t
			s.mu.Unlock()
			close(started)
			<-t.wake // wait for the first turn
			defer func() {
				if r := recover(); r != nil {
					t.Panic = r
				}
				t.finished = true
				s.parked <- t
			}()
			fn()
		}(t, fn)
		<-started
	}
	running := -1
	for {
		var enabled []int
		unfinished := 0
		for _, t := range s.tasks {
			if t.finished {
				continue
			}
			unfinished++
			if s.canRun(t) {
				enabled = append(enabled, t.ID)
			}
		}
		if unfinished == 0 {
			s.mu.Lock()
			for l, n := range s.held {
				s.Leaked = append(s.Leaked, fmt.Sprintf("%s (held %d times)", l.name(), n))
			}
			s.mu.Unlock()
			return
		}
		if len(enabled) == 0 {
			s.Deadlock = true
			for _, t := range s.tasks {
				if !t.finished {
					s.Blocked = append(s.Blocked, fmt.Sprintf("task %d waits for %s", t.ID, t.waitDesc()))
				}
			}
			// release the blocked goroutines so that the test process can go on: they stay parked forever
			return
		}
		y := Yield{Enabled: enabled, Running: running}
		k := 0
		if s.Choose != nil {
			k = s.Choose(y)
			if k < 0 || k >= len(enabled) {
				k = 0
			}
		}
		y.Task = enabled[k]
		t := s.tasks[y.Task]
		y.Op = t.waitDesc()
		s.Trace = append(s.Trace, y)
		running = t.ID
		t.wake <- struct{}{}
		<-s.parked // until it parks again or finishes
	}
}

func (t *Task) waitDesc() string {
	switch {
	case t.blockW != nil:
		return "blocked in Lock " + t.blockW.name()
	case t.blockR != nil:
		return "blocked in RLock " + t.blockR.name()
	case t.wantsW != nil:
		return "Lock " + t.wantsW.name()
	case t.wantsR != nil:
		return "RLock " + t.wantsR.name()
	}
	return "start"
}

// canRun: a task parked BEFORE an acquisition can always be chosen (it has not
// called Lock/RLock yet). A task that was chosen and found the lock taken is
// blocked inside Lock/RLock and can continue only when the lock is available;
// as with Go's RWMutex, a writer blocked in Lock keeps new readers out.
func (s *Sched) canRun(t *Task) bool {
	switch {
	case t.blockW != nil:
		return t.blockW.writer == nil && len(t.blockW.readers) == 0
	case t.blockR != nil:
		return t.blockR.writer == nil && len(t.blockR.waiters) == 0
	}
	return true
}

// park hands control back to the scheduler until this task is chosen again.
func (s *Sched) park(t *Task) {
	s.parked <- t
	<-t.wake
}

// ---------------------------------------------------------------------------
// lock bookkeeping shared by Mutex and RWMutex

type rw struct {
	real    sync.RWMutex
	writer  *Task
	readers map[*Task]int
	waiters map[*Task]bool // writers blocked in Lock
	label   string
}

func (l *rw) name() string {
	if l.label != "" {
		return l.label
	}
	return fmt.Sprintf("%p", l)
}

func (l *rw) lock() {
	s, t := current()
	if t != nil {
		t.wantsW = l
		s.park(t) // scheduling point: the call to Lock has not happened yet
		t.wantsW = nil
		if l.writer != nil || len(l.readers) > 0 {
			if l.waiters == nil {
				l.waiters = map[*Task]bool{}
			}
			l.waiters[t] = true
			t.blockW = l
			s.park(t) // blocked in Lock until the lock is free
			t.blockW = nil
			delete(l.waiters, t)
		}
		l.writer = t
		s.note(l, 1)
	}
	l.real.Lock()
}

func (l *rw) unlock() {
	if s, t := current(); t != nil && l.writer == t {
		l.writer = nil
		s.note(l, -1)
	} else if l.writer != nil && t == nil {
		l.writer = nil
		activeMu.RLock()
		a := active
		activeMu.RUnlock()
		if a != nil {
			a.note(l, -1)
		}
	}
	l.real.Unlock()
}

func (l *rw) rlock() {
	s, t := current()
	if t != nil {
		t.wantsR = l
		s.park(t) // scheduling point: the call to RLock has not happened yet
		t.wantsR = nil
		if l.writer != nil || len(l.waiters) > 0 {
			t.blockR = l
			s.park(t) // blocked in RLock (a writer holds the lock or waits for it)
			t.blockR = nil
		}
		if l.readers == nil {
			l.readers = map[*Task]int{}
		}
		l.readers[t]++
		s.note(l, 1)
	}
	l.real.RLock()
}

func (l *rw) runlock() {
	if s, t := current(); t != nil && l.readers != nil {
		s.note(l, -1)
		if l.readers[t] > 1 {
			l.readers[t]--
		} else {
			delete(l.readers, t)
		}
	}
	l.real.RUnlock()
}

type Mutex struct{ l rw }

func (m *Mutex) Lock()   { m.l.lock() }
func (m *Mutex) Unlock() { m.l.unlock() }
func (m *Mutex) TryLock() bool {
	return m.l.real.TryLock()
}

type RWMutex struct{ l rw }

func (m *RWMutex) Lock()    { m.l.lock() }
func (m *RWMutex) Unlock()  { m.l.unlock() }
func (m *RWMutex) RLock()   { m.l.rlock() }
func (m *RWMutex) RUnlock() { m.l.runlock() }

// Once: the first caller runs f while holding the lock; like sync.Once,
// concurrent callers wait until it has returned.
type Once struct {
	m    Mutex
	done bool
}

func (o *Once) Do(f func()) {
	o.m.Lock()
	defer o.m.Unlock()
	if !o.done {
		defer func() { o.done = true }()
		f()
	}
}

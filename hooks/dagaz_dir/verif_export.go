//go:build verif

// Verification hook (overlay only): exports package-private geometry helpers and
// vector accessors so that checks can compare them with exact references.
package dagaz

func VerifDoHorizontalPlanesOverlap(a, b Quad) bool { return doHorizontalPlanesOverlap(a, b) }
func VerifCalculateNormal(c, e Vector3f) Vector3f    { return calculateNormal(c, e) }
func (v Vector3f) VerifXYZ() (float32, float32, float32) { return v.x, v.y, v.z }

//go:build verif

// Verification hooks (overlay only, never committed to the repository).
package models

// VerifFrameHandlerCount: how many per-frame callbacks are registered with the
// session (every joined connection registers exactly one, which flushes its
// coalesced pose and component updates).
func VerifFrameHandlerCount(s *Session) int {
	s.frameMutex.RLock()
	defer s.frameMutex.RUnlock()
	return len(s.frameHandlers)
}

// VerifDispatchFrame does what the session's frame worker does when its ticker
// fires (the body of the select case in StartDispatchFrames). The scheduled
// driver has no clock; it runs a frame as one of the concurrent tasks of a
// block instead.
func VerifDispatchFrame(s *Session) {
	s.frameMutex.RLock()
	for _, h := range s.frameHandlers {
		h()
	}
	s.frameMutex.RUnlock()
}
